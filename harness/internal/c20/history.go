package c20

// Purity over HISTORIES.  "The same result for the same input on every call" is a statement about every call of every
// process, whatever was inflected before it.  Run calls the functions seven times on the same input inside one long-lived
// process: hidden state that is keyed too coarsely (a memo per irregular word keyed by the lower-cased word that stores
// the first caller's spelling, a reused buffer) repeats its first answer faithfully and stays invisible there.  So
//
//   - a case may carry a history (`hist`): the calls a FRESH child process makes before it inflects the input; the answer
//     must be the one a fresh child gives that makes no other call.  Fixed family: every irregular word and replacement of
//     both tables, preceded by a case variant of itself (Title, UPPER, lower, mixed), alone and behind prefixes, in both
//     orders, under the same and under the other function;
//   - once per invocation the same list of calls (every irregular word and replacement x {lower, UPPER, Title, mixed}
//     x {alone, behind prefixes}, uninflected and ordinary words, the words of the repository's tests) is made by two
//     fresh children in opposite orders: every call must get the same answer in both.  A difference is minimised to a
//     two-call history (one earlier call that changes the answer) and handed to Run as an ordinary, replayable case.

import (
	"encoding/json"
	"fmt"
	"os"
	"os/exec"
	"strconv"
	"strings"

	"verifharness/internal/core"
)

type hcall struct {
	Rule string `json:"rule"` // "plural" | "singular"
	S    []byte `json:"s"`
	Q    string `json:"q,omitempty"` // S Go-quoted, for readers only
}

func hc(rule, s string) hcall { return hcall{Rule: rule, S: []byte(s), Q: strconv.Quote(s)} }

func (c hcall) String() string {
	n := "Pluralize"
	if c.Rule == "singular" {
		n = "Singularize"
	}
	return fmt.Sprintf("%s(%q)", n, string(c.S))
}

func mkH(rule, p, w string, hist ...hcall) json.RawMessage {
	b, _ := json.Marshal(input{Rule: rule, P: []byte(p), W: []byte(w), Q: strconv.Quote(p + w), K: "history", Hist: hist})
	return b
}

func histRun(seq []hcall) []string {
	out := make([]string, len(seq))
	for i, c := range seq {
		o, p, _ := call(fnOf(c.Rule), string(c.S))
		if p {
			o = "<panic>"
		}
		out[i] = o
	}
	return out
}

func init() {
	core.Children["c20-hist"] = func(args []string) int {
		var seq []hcall
		if err := json.NewDecoder(os.Stdin).Decode(&seq); err != nil {
			return 2
		}
		_ = json.NewEncoder(os.Stdout).Encode(histRun(seq))
		return 0
	}
}

func histChild(seq []hcall) ([]string, error) {
	exe, err := os.Executable()
	if err != nil {
		return nil, err
	}
	in, _ := json.Marshal(seq)
	cmd := exec.Command("timeout", "120", exe, "c20-hist")
	cmd.Stdin = strings.NewReader(string(in))
	b, err := cmd.Output()
	if err != nil {
		return nil, err
	}
	var out []string
	if err := json.Unmarshal(b, &out); err != nil {
		return nil, err
	}
	if len(out) != len(seq) {
		return nil, fmt.Errorf("history child answered %d of %d calls", len(out), len(seq))
	}
	return out, nil
}

// historyViolations: the GoViolations of a case that carries a history.
func historyViolations(rule, s string, hist []hcall) (viol []string, notes []string) {
	target := hc(rule, s)
	alone, err1 := histChild([]hcall{target})
	after, err2 := histChild(append(append([]hcall{}, hist...), target))
	if err1 != nil || err2 != nil {
		return nil, []string{fmt.Sprintf("history run skipped: %v %v", err1, err2)}
	}
	if a, b := alone[0], after[len(hist)]; a != b {
		var hs []string
		for _, h := range hist {
			hs = append(hs, h.String())
		}
		viol = append(viol, fmt.Sprintf("%s returns %q in a fresh process, but %q in a fresh process that called %s before: not the same result for the same input on every call",
			target, a, b, strings.Join(hs, ", ")))
	}
	return viol, nil
}

func title(w string) string {
	if w == "" {
		return w
	}
	return strings.ToUpper(w[:1]) + w[1:]
}

func mixed(r *core.RNG, w string) string {
	var b strings.Builder
	for i := 0; i < len(w); i++ {
		if r.Bool() {
			b.WriteString(strings.ToUpper(w[i : i+1]))
		} else {
			b.WriteByte(w[i])
		}
	}
	return b.String()
}

var histPrefixes = []string{"", "", "wild ", "old-", "a ", "x.", "my big ", "Old ", "a\n", "é", "日本 ", "(", "K-"}

// fixedHistories: the fixed family (see the comment at the top).
func fixedHistories(r *core.RNG, sd map[string]*side, tier string) []json.RawMessage {
	var out []json.RawMessage
	rules := []string{"plural", "singular"}
	for ri, rule := range rules {
		for _, it := range sd[rule].items {
			for wi, w := range []string{it.Word, it.Replacement} {
				if w == "" {
					continue
				}
				vs := []string{w, title(w), strings.ToUpper(w), mixed(r, w)}
				// every ordered pair of distinct spellings, the earlier one alone or behind a prefix, the later one too
				for i, first := range vs {
					for j, then := range vs {
						if i == j || first == then {
							continue
						}
						if tier != "thorough" && wi == 1 && !(i <= 1 && j <= 1) { // quick: replacements only lower <-> Title
							continue
						}
						p1, p2 := "", ""
						switch r.Intn(4) {
						case 0:
							p1 = core.Pick(r, histPrefixes)
						case 1:
							p2 = core.Pick(r, histPrefixes)
						case 2:
							p1, p2 = core.Pick(r, histPrefixes), core.Pick(r, histPrefixes)
						}
						hrule := rule
						if r.Chance(10) { // the other function saw the word first
							hrule = rules[1-ri]
						}
						out = append(out, mkH(rule, p2, then, hc(hrule, p1+first)))
					}
				}
				// the same spelling behind a different prefix / alone
				out = append(out, mkH(rule, "", w, hc(rule, core.Pick(r, histPrefixes[2:])+w)), mkH(rule, core.Pick(r, histPrefixes[2:]), w, hc(rule, w)))
			}
		}
		// neighbours in the suffix-rule and uninflected branches
		for i := 0; i < 12 && len(sd[rule].lits) > 0; i++ {
			u := core.Pick(r, sd[rule].lits)
			out = append(out, mkH(rule, "", u, hc(rule, title(u))), mkH(rule, "", strings.ToUpper(u), hc(rule, core.Pick(r, histPrefixes)+u)))
		}
		for i := 0; i < 12; i++ {
			u := core.Pick(r, plainWords)
			out = append(out, mkH(rule, "", u, hc(rule, title(u))), mkH(rule, core.Pick(r, histPrefixes), title(u), hc(rule, u)),
				mkH(rule, "", u, hc(rules[1-ri], u)))
		}
	}
	return out
}

// twoOrders: the once-per-invocation pass.  Returns the minimised histories as cases, plus violations that could not be
// turned into a case, notes and statistics.
func twoOrders(r *core.RNG, sd map[string]*side, tier string) (cases []json.RawMessage, viol []string, notes []string, stats map[string]any) {
	stats = map[string]any{}
	rules := []string{"plural", "singular"}
	var seq []hcall
	seen := map[string]bool{}
	add := func(rule, s string) {
		k := rule + "\x00" + s
		if !seen[k] {
			seen[k] = true
			seq = append(seq, hc(rule, s))
		}
	}
	np := 2
	if tier == "thorough" {
		np = 6
	}
	for ri, rule := range rules {
		for _, it := range sd[rule].items {
			for _, w := range []string{it.Word, it.Replacement} {
				for _, v := range []string{w, title(w), strings.ToUpper(w), mixed(r, w)} {
					add(rule, v)
					for k := 0; k < np; k++ {
						add(rule, core.Pick(r, histPrefixes[2:])+v)
					}
					if r.Chance(25) {
						add(rules[1-ri], v)
					}
				}
			}
		}
		for _, u := range sd[rule].lits {
			add(rule, u)
			add(rule, title(u))
			add(rule, core.Pick(r, histPrefixes)+strings.ToUpper(u))
		}
		for _, u := range plainWords {
			add(rule, u)
			add(rule, title(u))
			add(rule, core.Pick(r, histPrefixes)+u)
		}
		for _, u := range testWords(repoDir()) {
			add(rule, u)
			add(rule, title(u))
		}
	}
	// seeded shuffle: neighbours in the list are unrelated, the two children see opposite orders
	for i := len(seq) - 1; i > 0; i-- {
		j := r.Intn(i + 1)
		seq[i], seq[j] = seq[j], seq[i]
	}
	n := len(seq)
	rev := make([]hcall, n)
	for i, c := range seq {
		rev[n-1-i] = c
	}
	a, err1 := histChild(seq)
	b, err2 := histChild(rev)
	stats["history_calls_per_order"] = n
	if err1 != nil || err2 != nil {
		return nil, nil, []string{fmt.Sprintf("history purity run skipped: %v %v", err1, err2)}, stats
	}
	differing := 0
	tries := 0
	for i, c := range seq {
		x, y := a[i], b[n-1-i]
		if x == y {
			continue
		}
		differing++
		if len(cases)+len(viol) >= 3 {
			continue
		}
		alone, err := histChild([]hcall{c})
		if err != nil {
			continue
		}
		// which order disagrees with the fresh answer; the culprit is among the calls made before c in that order
		before := seq[:i]
		if x == alone[0] {
			before = rev[:n-1-i]
		}
		// candidates that end in the same word (any case) first
		tw := strings.ToLower(string(c.S)[trailingLetters(string(c.S)):])
		var cand, rest []hcall
		for _, h := range before {
			hs := string(h.S)
			if strings.ToLower(hs[trailingLetters(hs):]) == tw {
				cand = append(cand, h)
			} else {
				rest = append(rest, h)
			}
		}
		cand = append(cand, rest...)
		found := false
		for _, h := range cand {
			if tries >= 400 {
				break
			}
			tries++
			if two, err := histChild([]hcall{h, c}); err == nil && two[1] != alone[0] {
				s := string(c.S)
				cut := trailingLetters(s)
				cases = append(cases, mkH(c.Rule, s[:cut], s[cut:], h))
				found = true
				break
			}
		}
		if !found {
			viol = append(viol, fmt.Sprintf("not the same result for the same input on every call: %s returns %q in a fresh process that first made the %d calls %s..., but %q in a fresh process that made the same calls in the opposite order (no single earlier call reproduces it)",
				c, x, i, fmt.Sprint(seq[:min(i, 5)]), y))
		}
	}
	stats["history_calls_differing"] = differing
	return cases, viol, nil, stats
}

var (
	histViol  []string
	histNotes []string
	histStats map[string]any
)

// histCases is called from Generate (normal runs only, not replays or shrink rounds).
func histCases(r *core.RNG, sd map[string]*side, tier string) []json.RawMessage {
	found, v, n, st := twoOrders(r.Fork(), sd, tier)
	histViol, histNotes, histStats = v, n, st
	return append(found, fixedHistories(r.Fork(), sd, tier)...)
}
