package c20

// vh fuzz-C20 <out.v> <seed> <n>: validation of the Gallina regexp model (Model/InflectorRegexp.v) against Go's
// regexp package on RANDOM patterns of the modelled language (not only the rules of rules.go), random templates
// and random texts.  Writes a Coq file whose evaluation prints the indices on which the model disagrees with
// MatchString / ReplaceAllString.  Not part of bin/check (see notes/C20.md for the results); run by hand:
//
//	vh fuzz-C20 /tmp/fz.v 1 20000 && coqc -Q coq/theories Gengo /tmp/fz.v

import (
	"fmt"
	"os"
	"regexp"
	"strconv"
	"strings"

	"verifharness/internal/core"
)

func fuzzPattern(r *core.RNG, depth int) string {
	lit := func() string {
		return core.Pick(r, []string{"a", "b", "s", "k", "x", "e", "S", "K", "-", "_", "1", " "})
	}
	if depth <= 0 {
		return lit()
	}
	switch r.Intn(14) {
	case 0, 1, 2:
		return lit()
	case 3:
		return core.Pick(r, []string{"[ab]", "[^ab]", "[a|b]", "[^s]", "[sk]", "[^k-]", "[-a]", "[xS]", "[^aeiouy]"})
	case 4:
		return "."
	case 5:
		return core.Pick(r, []string{"^", "$"})
	case 6, 7:
		return fuzzPattern(r, depth-1) + fuzzPattern(r, depth-1)
	case 8:
		return "(" + fuzzPattern(r, depth-1) + "|" + fuzzPattern(r, depth-1) + ")"
	case 9:
		return "(?:" + fuzzPattern(r, depth-1) + "|" + fuzzPattern(r, depth-1) + core.Pick(r, []string{"", "|", "|" + lit()}) + ")"
	case 10:
		return "(" + fuzzPattern(r, depth-1) + ")" + core.Pick(r, []string{"", "?", "*", "+"})
	case 11:
		return lit() + core.Pick(r, []string{"?", "*", "+"})
	case 12:
		return fuzzPattern(r, depth-1) + "|" + fuzzPattern(r, depth-1)
	default:
		return core.Pick(r, []string{".*", ".+", "[^a]*", "(.*)", "(a|ab)", "(a|ab)(c|bcd)?", "(a*)b", "(a+)(a*)"})
	}
}

func fuzzTemplate(r *core.RNG) string {
	var b strings.Builder
	n := r.Intn(4)
	for i := 0; i <= n; i++ {
		b.WriteString(core.Pick(r, []string{"$1", "${1}", "$2", "${2}", "$1x", "${1}x", "$$", "$", "${", "${1", "$0", "${0}", "$01", "${10}", "$_",
			"$a", "${a}", "x", "es", "-", "}", "{", "$12", "$3", "$1$2", "$ 1", "${1 }", "$1234567890", "$123456789", ""}))
	}
	return b.String()
}

func fuzzText(r *core.RNG) string {
	var b strings.Builder
	n := r.Intn(7)
	for i := 0; i < n; i++ {
		b.WriteString(core.Pick(r, []string{"a", "b", "s", "k", "x", "e", "A", "S", "K", "B", "-", "_", "1", " ", "|", "\n", "é", "ſ", "K", "\xff", "\xc5", "世", "y", "ab", "sk"}))
	}
	return b.String()
}

func init() {
	core.Children["fuzz-C20"] = func(args []string) int {
		if len(args) < 3 {
			fmt.Fprintln(os.Stderr, "usage: vh fuzz-C20 <out.v> <seed> <n>")
			return 2
		}
		seed, _ := strconv.ParseUint(args[1], 10, 64)
		n, _ := strconv.Atoi(args[2])
		r := core.NewRNG(seed)
		var b strings.Builder
		b.WriteString("Require Import Gengo.Base.Bytes Gengo.Model.Inflector Gengo.Model.InflectorRegexp.\n")
		b.WriteString("Definition fz : list (bytes * bytes * bytes * bool * bytes) := [\n")
		cnt := 0
		for cnt < n {
			p := fuzzPattern(r, 3)
			if r.Chance(60) {
				p = "(?i)" + p
			}
			if r.Chance(40) {
				p += "$"
			}
			re, err := regexp.Compile(p)
			if err != nil {
				continue
			}
			t := fuzzTemplate(r)
			for j := 0; j < 4 && cnt < n; j++ {
				s := fuzzText(r)
				sep := ";"
				if cnt == n-1 {
					sep = ""
				}
				fmt.Fprintf(&b, "  (%s, %s, %s, %s, %s)%s\n", core.Hex(p), core.Hex(t), core.Hex(s), core.CoqBool(re.MatchString(s)), core.Hex(re.ReplaceAllString(s, t)), sep)
				cnt++
			}
		}
		b.WriteString("].\n")
		b.WriteString(`
(* 0 = agrees, 1 = the pattern is outside the modelled language (does not compile in the model), 2 = DISAGREES *)
Definition verdict (c : bytes * bytes * bytes * bool * bytes) : nat :=
  let '(p, t, s, m, out) := c in
  match compile_rule (p, t) with
  | None => 1
  | Some cr =>
      let mm := match match_string (cr_fold cr) (cr_re cr) s with MYes _ => true | _ => false end in
      let oo := match replace_all (cr_fold cr) (cr_re cr) (cr_tmpl cr) s with Ok x => bytes_eqb x out | _ => false end in
      if Bool.eqb mm m && oo then 0 else 2
  end.
Definition verdicts := Eval vm_compute in map verdict fz.
Definition outside := Eval vm_compute in length (filter (Nat.eqb 1) verdicts).
Definition bad := Eval vm_compute in bad_indices (Nat.eqb 2) verdicts.
Print outside.
Print bad.
`)
		if err := os.WriteFile(args[0], []byte(b.String()), 0o644); err != nil {
			fmt.Fprintln(os.Stderr, err)
			return 1
		}
		return 0
	}
}
