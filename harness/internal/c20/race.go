package c20

// Once per invocation: a tiny program is generated in the scratch directory, built with the race detector against
// the repository under check, and run.  32 goroutines call Pluralize / Singularize on the same FRESH keys in
// different orders (so the first computation of every key is contended); every value returned must equal the
// value a sequential call returns afterwards, and the race detector must stay silent.  Data-race freedom of the
// cache is a runtime fact the Coq model cannot exhibit; this run is its only evidence.

import (
	"bytes"
	"context"
	"encoding/json"
	"fmt"
	"os"
	"os/exec"
	"path/filepath"
	"strings"
	"sync"
	"time"

	"verifharness/internal/core"
)

const raceMain = `package main

import (
	"encoding/json"
	"fmt"
	"os"
	"sync"

	"github.com/octohelm/gengo/pkg/inflector"
)

type out struct {
	Calls      int      ` + "`json:\"calls\"`" + `
	Keys       int      ` + "`json:\"keys\"`" + `
	Goroutines int      ` + "`json:\"goroutines\"`" + `
	Bad        []string ` + "`json:\"bad\"`" + `
}

func call(f func(string) string, s string) (r string, p bool) {
	defer func() {
		if e := recover(); e != nil {
			r, p = fmt.Sprint(e), true
		}
	}()
	return f(s), false
}

func main() {
	var keys []string
	data, err := os.ReadFile(os.Args[1])
	if err != nil || json.Unmarshal(data, &keys) != nil {
		fmt.Println("cannot read keys")
		os.Exit(3)
	}
	const G = 32
	o := out{Keys: len(keys), Goroutines: G}
	for fi, f := range []func(string) string{inflector.Pluralize, inflector.Singularize} {
		res := make([][]string, G)
		pan := make([][]bool, G)
		var wg sync.WaitGroup
		start := make(chan struct{})
		for g := 0; g < G; g++ {
			res[g] = make([]string, len(keys))
			pan[g] = make([]bool, len(keys))
			wg.Add(1)
			go func(g int) {
				defer wg.Done()
				<-start
				n := len(keys)
				// a different order per goroutine: stride walk from a different offset
				step := []int{1, n - 1}[g%2]
				i := (g * 7) % n
				for k := 0; k < n; k++ {
					res[g][i], pan[g][i] = call(f, keys[i])
					i = (i + step) % n
				}
			}(g)
		}
		close(start)
		wg.Wait()
		for i, k := range keys {
			want, wp := call(f, k)
			for g := 0; g < G; g++ {
				o.Calls++
				if res[g][i] != want || pan[g][i] != wp {
					if len(o.Bad) < 5 {
						o.Bad = append(o.Bad, fmt.Sprintf("func %d key %q: goroutine %d got %q (panic=%v), sequential call gives %q (panic=%v)", fi, k, g, res[g][i], pan[g][i], want, wp))
					}
				}
				if pan[g][i] && len(o.Bad) < 5 {
					o.Bad = append(o.Bad, fmt.Sprintf("func %d key %q: panic %s", fi, k, res[g][i]))
				}
			}
		}
	}
	b, _ := json.Marshal(o)
	fmt.Println("RESULT " + string(b))
}
`

// The concurrent run happens BEFORE the in-process cases (Generate is only called on a normal run, not for
// replays and shrink rounds): if it reports a data race or dies ("fatal error: concurrent map writes" cannot be
// recovered), the in-process executor serialises all its calls so that the harness itself survives and the
// finding is reported with the detector's output instead of a crashed harness.
var (
	preDone       bool
	preViolations []string
	preNotes      []string
	preStats      map[string]any
	serialize     bool
	serialMu      sync.Mutex
)

func preflight(r *core.RNG, tier string) {
	dir, err := os.MkdirTemp("", "verif-C20-race-")
	if err != nil {
		preNotes = append(preNotes, "race run skipped: "+err.Error())
		return
	}
	defer os.RemoveAll(dir)
	preViolations, preNotes, preStats = raceRun(r, tier, dir)
	preDone = true
	serialize = len(preViolations) > 0
}

func (prop) Extra(_ *core.RNG, tier string, _ string) (violations []string, notes []string, stats map[string]any) {
	if !preDone {
		return histViol, append(preNotes, histNotes...), map[string]any{"exhaustive": false}
	}
	st := map[string]any{}
	for k, v := range preStats {
		st[k] = v
	}
	for k, v := range histStats {
		st[k] = v
	}
	return append(append([]string{}, preViolations...), histViol...), append(append([]string{}, preNotes...), histNotes...), st
}

func raceRun(r *core.RNG, tier string, scratch string) (violations []string, notes []string, stats map[string]any) {
	stats = map[string]any{"exhaustive": tier == "thorough"}
	sd, err := loadSides()
	if err != nil {
		return []string{"tables of pkg/inflector/internal cannot be read: " + err.Error()}, nil, stats
	}
	dir := filepath.Join(scratch, "racecheck")
	if err := os.MkdirAll(dir, 0o755); err != nil {
		return nil, []string{"race run skipped: " + err.Error()}, stats
	}
	defer os.RemoveAll(dir)
	repo := repoDir()
	gomod := "module racecheck\n\ngo 1.24.2\n\nrequire github.com/octohelm/gengo v0.0.0\n\nreplace github.com/octohelm/gengo => " + repo + "\n"
	if data, err := os.ReadFile(filepath.Join(repo, "go.mod")); err == nil {
		for _, l := range strings.Split(string(data), "\n") {
			if strings.HasPrefix(l, "go ") {
				gomod = strings.Replace(gomod, "go 1.24.2", strings.TrimSpace(l), 1)
			}
		}
	}
	_ = os.WriteFile(filepath.Join(dir, "go.mod"), []byte(gomod), 0o644)
	if sum, err := os.ReadFile(filepath.Join(repo, "go.sum")); err == nil {
		_ = os.WriteFile(filepath.Join(dir, "go.sum"), sum, 0o644)
	}
	_ = os.WriteFile(filepath.Join(dir, "main.go"), []byte(raceMain), 0o644)

	// fresh keys: a per-run tag in the prefix makes sure none of them is in the cache of the child (it starts empty
	// anyway) and that prefixes differ from run to run
	n := 150
	if tier == "thorough" {
		n = 1500
	}
	var keys []string
	seen := map[string]bool{}
	for len(keys) < n {
		rule := core.Pick(r, []string{"plural", "singular"})
		it := core.Pick(r, sd[rule].items)
		w, _ := caseVariant(r, it.Word)
		var k string
		switch r.Intn(4) {
		case 0:
			k = w
		case 1:
			k = fmt.Sprintf("k%d %s", r.Intn(1000), w)
		case 2:
			k = core.Pick(r, prefixes) + w
		default:
			k = fmt.Sprintf("%s%d", core.Pick(r, plainWords), r.Intn(50))
		}
		if !seen[k] {
			seen[k] = true
			keys = append(keys, k)
		}
	}
	kb, _ := json.Marshal(keys)
	_ = os.WriteFile(filepath.Join(dir, "keys.json"), kb, 0o644)

	t0 := time.Now()
	ctx, cancel := context.WithTimeout(context.Background(), 240*time.Second)
	defer cancel()
	exe := filepath.Join(dir, "racecheck.bin")
	build := exec.CommandContext(ctx, "go", "build", "-race", "-o", exe, ".")
	build.Dir = dir
	build.Env = append(os.Environ(), "GOFLAGS=-mod=mod", "GOPROXY=off", "CGO_ENABLED=1")
	if outp, err := build.CombinedOutput(); err != nil {
		// plain build works?  then -race is what is unavailable here: a note, not a finding
		plain := exec.CommandContext(ctx, "go", "build", "-o", exe, ".")
		plain.Dir = dir
		plain.Env = append(os.Environ(), "GOFLAGS=-mod=mod", "GOPROXY=off")
		if out2, err2 := plain.CombinedOutput(); err2 != nil {
			return []string{"the concurrency test program does not build against the current tree: " + tail(string(out2), 600)}, nil, stats
		}
		notes = append(notes, "race-detector build unavailable ("+tail(string(outp), 200)+"); concurrent run executed without -race")
		stats["race_detector"] = false
	} else {
		stats["race_detector"] = true
	}
	stats["race_build_s"] = time.Since(t0).Seconds()
	run := exec.CommandContext(ctx, exe, filepath.Join(dir, "keys.json"))
	run.Dir = dir
	run.Env = append(os.Environ(), "GORACE=halt_on_error=0 exitcode=66")
	var ob, eb bytes.Buffer
	run.Stdout, run.Stderr = &ob, &eb
	rerr := run.Run()
	stats["race_total_s"] = time.Since(t0).Seconds()
	if strings.Contains(eb.String(), "DATA RACE") {
		violations = append(violations, "data race reported by the race detector while 32 goroutines call Pluralize/Singularize on the same keys: "+tail(firstRace(eb.String()), 900))
	}
	var res struct {
		Calls, Keys, Goroutines int
		Bad                     []string
	}
	found := false
	for _, l := range strings.Split(ob.String(), "\n") {
		if strings.HasPrefix(l, "RESULT ") && json.Unmarshal([]byte(l[7:]), &res) == nil {
			found = true
		}
	}
	if !found {
		if len(violations) == 0 {
			violations = append(violations, fmt.Sprintf("concurrent run did not finish (%v): %s", rerr, tail(eb.String(), 600)))
		}
		return
	}
	stats["concurrent_calls"] = res.Calls
	stats["concurrent_keys"] = res.Keys
	stats["goroutines"] = res.Goroutines
	for _, b := range res.Bad {
		violations = append(violations, "concurrent callers: "+b)
	}
	return
}

func tail(s string, n int) string {
	if len(s) > n {
		return s[len(s)-n:]
	}
	return s
}

func firstRace(s string) string {
	i := strings.Index(s, "WARNING: DATA RACE")
	if i < 0 {
		return s
	}
	s = s[i:]
	if j := strings.Index(s[10:], "=================="); j > 0 {
		s = s[:10+j]
	}
	if len(s) > 900 {
		s = s[:900]
	}
	return s
}
