package c17

import (
	"fmt"
	"strings"

	"verifharness/internal/core"
)

func coqEty(s string) string {
	if i := strings.Index(s, "."); i >= 0 {
		return fmt.Sprintf("EForeign %s %s", core.Hex(s[:i]), core.Hex(s[i+1:]))
	}
	return "EBasic " + core.Hex(s)
}

// methods of time.Duration as the scan sees them (none is named DeepCopy/DeepCopyInto)
const durationMethods = `[mk_msig (hx "416273") 0 1 false; mk_msig (hx "486f757273") 0 1 false; mk_msig (hx "537472696e67") 0 1 false]`

func coqFty(f Field) string {
	switch f.K {
	case KBasic:
		return "FBasic " + core.Hex(f.A)
	case KSlice:
		return "FSlice (" + coqEty(f.A) + ")"
	case KMap:
		return fmt.Sprintf("FMap %s (%s)", core.Hex(f.A), coqEty(f.B))
	case KNamed:
		return fmt.Sprintf("FNamed %s %s", core.Hex(f.A), hexList(f.Args))
	case KError:
		return "FError"
	case KAny, KIface:
		return "FIface"
	case KTParam:
		return "FTParam " + core.Hex(f.A)
	case KForeign:
		return "FForeign " + durationMethods
	}
	return "FIface"
}

func coqDecl(in *Input, d *Decl) string {
	var kind string
	switch d.Kind {
	case DStruct:
		var fs []string
		for _, f := range d.Fields {
			if f.Name == "_" {
				// a blank field is no field of the model's struct: no Go program can read or write it, == ignores it and
				// the repaired Frag skips it (fixes/C17-blank-field.diff): the model of a struct with blank fields is the
				// model of the struct without them (before the repair the observed `out._ = in._` equals no model statement)
				continue
			}
			// a field declared through an alias has the type the alias denotes (identical types)
			fs = append(fs, fmt.Sprintf("(%s, %s)", core.Hex(f.Name), coqFty(in.resolve(f))))
		}
		kind = fmt.Sprintf("(DStruct %s %s)", hexList(d.TParams), core.CoqList(fs))
	case DMap:
		kind = fmt.Sprintf("(DMap %s %s)", core.Hex(d.Key), core.Hex(d.Elem))
	case DScalar:
		kind = "DScalar"
	default:
		kind = "DIface"
	}
	hand := "[]"
	if d.Strs && d.Kind != DIface && len(d.TParams) == 0 {
		hand = `[mk_msig (hx "537472696e67") 0 1 false]`
	}
	return fmt.Sprintf("mk_decl %s %s %s %s %s", core.Hex(d.Name), kind, core.CoqBool(d.Tag),
		core.CoqOpt(d.Ifaces, core.Hex("Object")), hand)
}

func coqRun(g GenRun) string {
	switch g.Status {
	case "crash":
		return "GCrash"
	case "nofile":
		return "GNoFile"
	case "file":
		return "GFile " + coqMethods(g.Methods)
	}
	return "GFail"
}

func coqCase(in *Input, obs *Observed, roots []*Decl) string {
	var ds []string
	for i := range in.Decls {
		if in.Decls[i].Kind == DAlias {
			continue // an alias declares no type
		}
		ds = append(ds, coqDecl(in, &in.Decls[i]))
	}
	if in.hasIfaces() {
		ds = append(ds, coqDecl(in, &Decl{Name: "Object", Kind: DIface}))
	}
	var runs []string
	for _, g := range obs.Runs {
		runs = append(runs, coqRun(g))
	}
	var rs []string
	for i, v := range obs.Roots {
		if i >= len(roots) {
			break
		}
		d := roots[i]
		has := v.HasCopy && v.HasInto && v.Panic == ""
		rs = append(rs, fmt.Sprintf("mk_root %s %s %s %s %s %s", core.Hex(v.Type), core.CoqBool(has), core.CoqBool(v.NilNil),
			core.CoqBool(v.Equal && v.IntoEqual), core.CoqBool(v.Unchanged && v.IntoUnchanged && v.TPUnchanged),
			core.CoqBool(v.HasObject == d.Ifaces && v.ObjectOK)))
	}
	complete := obs.Compiles && obs.BuildError == "" && len(obs.Roots) == len(roots)
	return fmt.Sprintf("mk_case (mk_pkg %s %s) %s %s %s %s %s", core.CoqBool(in.PkgTag), core.CoqList(ds),
		hexList(in.sortedNames()), core.CoqList(runs), core.CoqBool(obs.SameRerun), core.CoqBool(complete), core.CoqList(rs))
}
