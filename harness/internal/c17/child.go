package c17

import (
	"context"
	"fmt"
	"os"
	"runtime/debug"

	_ "github.com/octohelm/gengo/devpkg/deepcopygen"
	"github.com/octohelm/gengo/pkg/gengo"

	"verifharness/internal/core"
)

// child entry point:  vh c17-gen <module dir> <pkg pattern> [<output file base name>]
// Runs the real deepcopy generator through gengo.NewContext(...).Execute exactly once (GeneratorArgs.OutputFileBaseName =
// the third argument, "zz_generated" when absent).
// exit 0 = generated, 3 = Execute/NewContext returned an error, 2 = panic (Go runtime prints the trace).
func init() {
	core.Children["c17-gen"] = func(args []string) int {
		debug.SetMaxStack(256 << 20)
		if len(args) < 2 {
			fmt.Fprintln(os.Stderr, "usage: vh c17-gen <dir> <pattern>")
			return 4
		}
		if err := os.Chdir(args[0]); err != nil {
			fmt.Fprintln(os.Stderr, err)
			return 4
		}
		base := "zz_generated"
		if len(args) > 2 && args[2] != "" {
			base = args[2]
		}
		c, err := gengo.NewContext(&gengo.GeneratorArgs{
			Entrypoint:         []string{args[1]},
			OutputFileBaseName: base,
			Force:              true,
		})
		if err != nil {
			fmt.Fprintln(os.Stderr, "NewContext:", err)
			return 3
		}
		if err := c.Execute(context.Background(), gengo.GetRegisteredGenerators("deepcopy")...); err != nil {
			fmt.Fprintln(os.Stderr, "Execute:", err)
			return 3
		}
		return 0
	}
}
