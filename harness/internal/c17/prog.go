package c17

import (
	"fmt"
	"sort"
	"strings"
)

// testProgram renders cmd/t/main.go: a reflective driver (static text) plus the list of root types.
//
// tparamFields: generic struct name -> its fields whose type is a bare type parameter.  The generated method of a generic
// struct can only assign such a field (out.F = in.F; T has no methods), so when the type ARGUMENT is a map, a slice-carrying
// struct ... the container behind it is shared between copy and original: known finding type_argument_with_containers.
// To tell that finding from every other way of sharing a container, the copy is mutated in two passes: first every
// container that is NOT reached through a type-parameter field (verdicts unchanged / into_unchanged), then the containers
// reached through one (verdict tp_unchanged).
func testProgram(roots []string, seed uint64, trials int, tparamFields map[string][]string) string {
	var b strings.Builder
	b.WriteString(progHead)
	b.WriteString("\nvar tparamFields = map[string]bool{\n")
	var keys []string
	for g, fs := range tparamFields {
		for _, f := range fs {
			keys = append(keys, g+"."+f)
		}
	}
	sort.Strings(keys)
	for _, k := range keys {
		fmt.Fprintf(&b, "\t%q: true,\n", k)
	}
	b.WriteString("}\n")
	fmt.Fprintf(&b, "\nconst baseSeed uint64 = %d\nconst trials = %d\n\nvar roots = []any{\n", seed, trials)
	for _, r := range roots {
		fmt.Fprintf(&b, "\t%s,\n", r)
	}
	b.WriteString("}\n")
	return b.String()
}

const progHead = `// Test program of the C17 check (generated).
package main

import (
	"encoding/json"
	"errors"
	"fmt"
	"os"
	"reflect"
	"sort"
	"strings"
	"unsafe"

	p "example.com/c17m/p"
)

var _ = p.Keep

type rng struct{ s uint64 }

func (r *rng) next() uint64 {
	r.s += 0x9E3779B97F4A7C15
	z := r.s
	z = (z ^ (z >> 30)) * 0xBF58476D1CE4E5B9
	z = (z ^ (z >> 27)) * 0x94D049BB133111EB
	return z ^ (z >> 31)
}
func (r *rng) n(k int) int { return int(r.next() % uint64(k)) }

// fld: field i of the struct v, readable and writable also when its name is not exported (this program lives outside
// package p; a field such as hits or _seen is as much part of a value as an exported one).
func fld(v reflect.Value, i int) reflect.Value {
	f := v.Field(i)
	if !f.CanSet() && f.CanAddr() {
		return reflect.NewAt(f.Type(), unsafe.Pointer(f.UnsafeAddr())).Elem()
	}
	return f
}

// addressable: v itself, or a copy of it that can be addressed (so that fld reaches unexported fields)
func addressable(v reflect.Value) reflect.Value {
	if v.CanAddr() {
		return v
	}
	nv := reflect.New(v.Type()).Elem()
	nv.Set(v)
	return nv
}

type strImpl string

func (s strImpl) String() string { return string(s) }

var errVals = []error{errors.New("e0"), errors.New("e1"), errors.New("e2")}

func fill(r *rng, v reflect.Value) {
	switch v.Kind() {
	case reflect.Bool:
		v.SetBool(r.n(2) == 1)
	case reflect.Int, reflect.Int8, reflect.Int16, reflect.Int32, reflect.Int64:
		v.SetInt(int64(r.n(100)))
	case reflect.Uint, reflect.Uint8, reflect.Uint16, reflect.Uint32, reflect.Uint64, reflect.Uintptr:
		v.SetUint(uint64(r.n(100)))
	case reflect.Float32, reflect.Float64:
		v.SetFloat(float64(r.n(100)) / 4)
	case reflect.Complex64, reflect.Complex128:
		v.SetComplex(complex(float64(r.n(10)), float64(r.n(10))))
	case reflect.String:
		v.SetString(fmt.Sprintf("s%d", r.n(1000)))
	case reflect.Struct:
		for i := 0; i < v.NumField(); i++ {
			if v.Type().Field(i).Name == "_" {
				continue // no Go program can give a blank field a value: it stays zero
			}
			if f := fld(v, i); f.CanSet() {
				fill(r, f)
			}
		}
	case reflect.Slice:
		switch m := r.n(6); m {
		case 0: // nil
		case 1:
			v.Set(reflect.MakeSlice(v.Type(), 0, r.n(3)))
		default:
			n := 1 + r.n(4)
			c := n + r.n(3) // spare capacity: a shared backing array shows under append
			s := reflect.MakeSlice(v.Type(), c, c)
			for i := 0; i < c; i++ {
				fill(r, s.Index(i))
			}
			v.Set(s.Slice(0, n))
		}
	case reflect.Map:
		switch m := r.n(6); m {
		case 0:
		case 1:
			v.Set(reflect.MakeMap(v.Type()))
		default:
			n := 1 + r.n(4)
			mm := reflect.MakeMap(v.Type())
			for i := 0; i < n; i++ {
				k := reflect.New(v.Type().Key()).Elem()
				fill(r, k)
				e := reflect.New(v.Type().Elem()).Elem()
				fill(r, e)
				mm.SetMapIndex(k, e)
			}
			v.Set(mm)
		}
	case reflect.Interface:
		if r.n(4) == 0 {
			return
		}
		cands := []any{errVals[r.n(len(errVals))], strImpl(fmt.Sprintf("i%d", r.n(50))), r.n(50), fmt.Sprintf("a%d", r.n(50))}
		off := r.n(len(cands))
		for i := range cands {
			c := reflect.ValueOf(cands[(i+off)%len(cands)])
			if c.Type().AssignableTo(v.Type()) {
				v.Set(c)
				return
			}
		}
	case reflect.Pointer:
		if r.n(4) == 0 {
			return
		}
		x := reflect.New(v.Type().Elem())
		fill(r, x.Elem())
		v.Set(x)
	}
}

func dump(b *strings.Builder, v reflect.Value, withCap bool) {
	switch v.Kind() {
	case reflect.Struct:
		b.WriteString("{")
		v = addressable(v)
		for i := 0; i < v.NumField(); i++ {
			b.WriteString(v.Type().Field(i).Name)
			b.WriteString(":")
			dump(b, fld(v, i), withCap)
			b.WriteString(";")
		}
		b.WriteString("}")
	case reflect.Slice:
		if v.IsNil() {
			b.WriteString("nil[]")
			return
		}
		n := v.Len()
		w := v
		if withCap {
			w = v.Slice(0, v.Cap())
		}
		fmt.Fprintf(b, "[%d:", n)
		for i := 0; i < w.Len(); i++ {
			if i == n {
				b.WriteString("|")
			}
			dump(b, w.Index(i), withCap)
			b.WriteString(",")
		}
		b.WriteString("]")
	case reflect.Map:
		if v.IsNil() {
			b.WriteString("nilmap")
			return
		}
		var items []string
		it := v.MapRange()
		for it.Next() {
			var kb strings.Builder
			dump(&kb, it.Key(), withCap)
			kb.WriteString("=>")
			dump(&kb, it.Value(), withCap)
			items = append(items, kb.String())
		}
		sort.Strings(items)
		b.WriteString("map{" + strings.Join(items, ",") + "}")
	case reflect.Interface:
		if v.IsNil() {
			b.WriteString("niliface")
			return
		}
		fmt.Fprintf(b, "iface(%T:%v)", v.Interface(), v.Interface())
	case reflect.Pointer:
		if v.IsNil() {
			b.WriteString("nilptr")
			return
		}
		b.WriteString("&")
		dump(b, v.Elem(), withCap)
	default:
		fmt.Fprintf(b, "%v", v.Interface())
	}
}

func dumps(v reflect.Value, withCap bool) string {
	var b strings.Builder
	dump(&b, v, withCap)
	return b.String()
}

// bump sets a scalar to a different value.
func bump(v reflect.Value) {
	switch v.Kind() {
	case reflect.Bool:
		v.SetBool(!v.Bool())
	case reflect.Int, reflect.Int8, reflect.Int16, reflect.Int32, reflect.Int64:
		v.SetInt(v.Int() + 1)
	case reflect.Uint, reflect.Uint8, reflect.Uint16, reflect.Uint32, reflect.Uint64, reflect.Uintptr:
		v.SetUint(v.Uint() + 1)
	case reflect.Float32, reflect.Float64:
		v.SetFloat(v.Float() + 1)
	case reflect.Complex64, reflect.Complex128:
		v.SetComplex(v.Complex() + 1)
	case reflect.String:
		v.SetString(v.String() + "!")
	}
}

// mutate appends to / assigns into every slice and map reachable from v through struct fields (any depth),
// and assigns every scalar field.  containers counts the slices and maps touched, depth the deepest one.
//
// A field whose declared type is a bare type parameter of a generic struct (tparamFields) is assigned by the generated
// method whatever the type argument is.  pass 0 mutates everything except the containers below such a field, pass 1 only
// the containers below such a field (see testProgram).
func mutate(v reflect.Value, depth int, containers *int, maxDepth *int) {
	mutateS(v, depth, containers, maxDepth, false, 0)
}

func mutateTP(v reflect.Value) {
	c, d := 0, 0
	mutateS(v, 0, &c, &d, false, 1)
}

func originName(t reflect.Type) string {
	n := t.Name()
	if i := strings.IndexByte(n, '['); i >= 0 {
		return n[:i]
	}
	return n
}

func mutateS(v reflect.Value, depth int, containers *int, maxDepth *int, shared bool, pass int) {
	mutate := func(v reflect.Value, depth int, containers *int, maxDepth *int) {
		mutateS(v, depth, containers, maxDepth, shared, pass)
	}
	switch v.Kind() {
	case reflect.Slice, reflect.Map, reflect.Pointer:
		if shared != (pass == 1) {
			return
		}
	case reflect.Struct, reflect.Interface:
	default:
		if pass == 1 {
			return
		}
	}
	switch v.Kind() {
	case reflect.Struct:
		on := originName(v.Type())
		for i := 0; i < v.NumField(); i++ {
			mutateS(fld(v, i), depth+1, containers, maxDepth, shared || tparamFields[on+"."+v.Type().Field(i).Name], pass)
		}
	case reflect.Slice:
		*containers++
		if depth > *maxDepth {
			*maxDepth = depth
		}
		for i := 0; i < v.Len(); i++ {
			e := v.Index(i)
			if e.Kind() == reflect.Struct || e.Kind() == reflect.Slice || e.Kind() == reflect.Map || e.Kind() == reflect.Pointer {
				mutate(e, depth+1, containers, maxDepth)
			} else {
				bump(e)
			}
		}
		if v.CanSet() {
			x := reflect.New(v.Type().Elem()).Elem()
			bump(x)
			v.Set(reflect.Append(v, x))
			x2 := reflect.New(v.Type().Elem()).Elem()
			bump(x2)
			bump(x2)
			v.Set(reflect.Append(v, x2))
		}
	case reflect.Map:
		*containers++
		if depth > *maxDepth {
			*maxDepth = depth
		}
		if v.IsNil() {
			if !v.CanSet() {
				return
			}
			v.Set(reflect.MakeMap(v.Type()))
		}
		keys := v.MapKeys()
		sort.Slice(keys, func(i, j int) bool { return dumps(keys[i], false) < dumps(keys[j], false) })
		for i, k := range keys {
			if i == 0 {
				v.SetMapIndex(k, reflect.Value{}) // delete
				continue
			}
			e := reflect.New(v.Type().Elem()).Elem()
			e.Set(v.MapIndex(k))
			bump(e)
			v.SetMapIndex(k, e)
		}
		nk := reflect.New(v.Type().Key()).Elem()
		switch nk.Kind() {
		case reflect.String:
			nk.SetString("fresh-key")
		case reflect.Bool:
			nk.SetBool(true)
		default:
			fill(&rng{s: 99}, nk)
			for j := 0; j < 7; j++ {
				bump(nk) // filled values are < 100
				bump(nk)
			}
			for j := 0; j < 100; j++ {
				bump(nk)
			}
		}
		ne := reflect.New(v.Type().Elem()).Elem()
		bump(ne)
		v.SetMapIndex(nk, ne)
	case reflect.Pointer:
		if !v.IsNil() {
			mutate(v.Elem(), depth+1, containers, maxDepth)
		}
	case reflect.Interface:
		// interface values are shared by design; not mutated
	default:
		if v.CanSet() {
			bump(v)
		}
	}
}

type verdict struct {
	Type          string ` + "`json:\"type\"`" + `
	HasCopy       bool   ` + "`json:\"has_copy\"`" + `
	HasInto       bool   ` + "`json:\"has_into\"`" + `
	HasObject     bool   ` + "`json:\"has_object\"`" + `
	NilNil        bool   ` + "`json:\"nil_nil\"`" + `
	Equal         bool   ` + "`json:\"equal\"`" + `
	Unchanged     bool   ` + "`json:\"unchanged\"`" + `
	IntoEqual     bool   ` + "`json:\"into_equal\"`" + `
	IntoUnchanged bool   ` + "`json:\"into_unchanged\"`" + `
	TPUnchanged   bool   ` + "`json:\"tp_unchanged\"`" + `
	ObjectOK      bool   ` + "`json:\"object_ok\"`" + `
	Containers    int    ` + "`json:\"containers\"`" + `
	Depth         int    ` + "`json:\"depth\"`" + `
	Panic         string ` + "`json:\"panic,omitempty\"`" + `
	Detail        string ` + "`json:\"detail,omitempty\"`" + `
}

func checkRoot(root any) (vd verdict) {
	t := reflect.TypeOf(root)
	vd.Type = t.String()
	defer func() {
		if r := recover(); r != nil {
			vd.Panic = fmt.Sprint(r)
		}
	}()
	isMap := t.Kind() == reflect.Map
	vt := t
	if !isMap {
		vt = t.Elem()
	}
	// fresh: a filled value; recv: the value methods are called on
	fresh := func(seed uint64) (recv reflect.Value, val reflect.Value) {
		pv := reflect.New(vt)
		fill(&rng{s: seed}, pv.Elem())
		if isMap {
			return pv.Elem(), pv.Elem()
		}
		return pv, pv.Elem()
	}
	zr := reflect.Zero(t)
	mc := zr.MethodByName("DeepCopy")
	vd.HasCopy = mc.IsValid()
	vd.HasInto = zr.MethodByName("DeepCopyInto").IsValid()
	vd.HasObject = zr.MethodByName("DeepCopyObject").IsValid()
	vd.NilNil, vd.Equal, vd.Unchanged, vd.IntoEqual, vd.IntoUnchanged, vd.ObjectOK = true, true, true, true, true, true
	vd.TPUnchanged = true
	if vd.HasCopy {
		res := mc.Call(nil)
		vd.NilNil = len(res) == 1 && res[0].IsNil()
	} else {
		vd.NilNil, vd.Equal, vd.Unchanged = false, false, false
	}
	if !vd.HasInto {
		vd.IntoEqual, vd.IntoUnchanged = false, false
	}
	elem := func(v reflect.Value) reflect.Value {
		if isMap {
			return v
		}
		return v.Elem()
	}
	for k := 0; k < trials; k++ {
		seed := baseSeed*1000003 + uint64(k)*7919 + 1
		if vd.HasCopy {
			recv, orig := fresh(seed)
			_, snap := fresh(seed)
			if dumps(orig, true) != dumps(snap, true) {
				vd.Detail = "filler is not deterministic"
			}
			cp := recv.MethodByName("DeepCopy").Call(nil)[0]
			if isMap && orig.IsNil() {
				if !cp.IsNil() {
					vd.NilNil = false
				}
			} else if cp.IsNil() {
				vd.Equal = false
				vd.Detail = "DeepCopy of a non-nil value is nil"
				continue
			}
			if !reflect.DeepEqual(recv.Interface(), cp.Interface()) || dumps(orig, false) != dumps(elem(cp), false) {
				vd.Equal = false
				if vd.Detail == "" {
					vd.Detail = "copy " + dumps(elem(cp), false) + " != original " + dumps(orig, false)
				}
			}
			c, d := 0, 0
			mutate(elem(cp), 0, &c, &d)
			if c > vd.Containers {
				vd.Containers = c
			}
			if d > vd.Depth {
				vd.Depth = d
			}
			if dumps(orig, true) != dumps(snap, true) {
				vd.Unchanged = false
				if vd.Detail == "" {
					vd.Detail = "after mutating the copy the original is " + dumps(orig, true) + ", was " + dumps(snap, true)
				}
			} else if mutateTP(elem(cp)); dumps(orig, true) != dumps(snap, true) {
				vd.TPUnchanged = false
				if vd.Detail == "" {
					vd.Detail = "after mutating the containers behind type-parameter fields of the copy the original is " + dumps(orig, true) + ", was " + dumps(snap, true)
				}
			}
		}
		if vd.HasInto {
			recv, orig := fresh(seed)
			_, snap := fresh(seed)
			var out reflect.Value
			if isMap {
				out = reflect.MakeMap(vt)
			} else {
				out = reflect.New(vt)
			}
			recv.MethodByName("DeepCopyInto").Call([]reflect.Value{out})
			same := dumps(orig, false) == dumps(elem(out), false)
			if isMap && orig.IsNil() {
				same = out.Len() == 0
			}
			if !same {
				vd.IntoEqual = false
				if vd.Detail == "" {
					vd.Detail = "DeepCopyInto gave " + dumps(elem(out), false) + " for " + dumps(orig, false)
				}
			}
			c, d := 0, 0
			mutate(elem(out), 0, &c, &d)
			if dumps(orig, true) != dumps(snap, true) {
				vd.IntoUnchanged = false
			} else if mutateTP(elem(out)); dumps(orig, true) != dumps(snap, true) {
				vd.TPUnchanged = false
			}
		}
		if vd.HasObject {
			recv, orig := fresh(seed)
			res := recv.MethodByName("DeepCopyObject").Call(nil)
			if isMap && orig.IsNil() {
				if len(res) != 1 || !res[0].IsNil() {
					vd.ObjectOK = false
				}
			} else if len(res) != 1 || res[0].IsNil() {
				vd.ObjectOK = false
			} else {
				o := res[0].Elem() // dynamic value: *T
				if o.Type() != t || !reflect.DeepEqual(o.Interface(), recv.Interface()) || o.Pointer() == recv.Pointer() {
					vd.ObjectOK = false
				}
				_ = orig
			}
			zres := zr.MethodByName("DeepCopyObject").Call(nil)
			if len(zres) != 1 || !zres[0].IsNil() {
				vd.ObjectOK = false
			}
		}
	}
	return vd
}

func main() {
	var out []verdict
	for _, r := range roots {
		out = append(out, checkRoot(r))
	}
	_ = json.NewEncoder(os.Stdout).Encode(out)
}
`
