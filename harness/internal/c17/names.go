package c17

import (
	"fmt"
	"regexp"
	"unicode"
	"unicode/utf8"

	"verifharness/internal/core"
)

// ---- field names of every legal identifier shape ----
//
// Added after seeded change C17-m (StructFieldsCopy.Frag skips every field whose name starts with `_`).  Every generated
// package used to name its fields F0, K1, S, M ...: exported ASCII names, and the test program (which lives outside
// package p) filled exported fields only.  What the generator does with a field must not depend on how the field is
// spelled: a field is copied whether its name is exported or not, starts with an underscore, is written with letters
// and digits outside ASCII, or happens to equal a predeclared identifier or a local of the templates (in, out, i, o,
// key, val, c, k: the name only ever appears as a selector, in.<name>, so nothing is shadowed).  The one exception is
// the blank identifier: `_ int` declares a field no Go program can read or write; it is always zero, `==` ignores it
// and the generator must not mention it (repaired: fixes/C17-blank-field.diff).
type nameShape struct {
	tag   string
	names []string
}

var nameShapes = []nameShape{
	{"blank", []string{"_"}},
	{"underscore", []string{"_hits", "_seen", "_gen", "_x", "_1", "__", "_X", "_é", "_in", "___9", "_Hits"}},
	{"unexported", []string{"hits", "seen", "x1", "a", "zz", "fooBar", "gen"}},
	{"exported", []string{"Hits", "Seen", "X1", "A", "ID", "Zz", "FooBar"}},
	{"nonascii", []string{"état", "Étage", "ünï", "Ünï", "x٣", "名前", "Ωmega", "ß", "données"}},
	{"predeclared", []string{"int", "string", "len", "make", "copy", "nil", "true", "false", "append", "cap", "new", "error", "any", "bool", "iota", "panic", "delete"}},
	{"local", []string{"in", "out", "i", "o", "key", "val", "c", "k", "p"}},
}

var rePlainName = regexp.MustCompile(`^[A-Z][A-Za-z0-9]*$`)

func nameShapeOf(n string) string {
	if n == "_" {
		return "blank"
	}
	if n != "" && n[0] == '_' {
		return "underscore"
	}
	for _, c := range n {
		if c >= utf8.RuneSelf {
			return "nonascii"
		}
	}
	for _, s := range nameShapes[5:] {
		for _, m := range s.names {
			if m == n {
				return s.tag
			}
		}
	}
	if c, _ := utf8.DecodeRuneInString(n); unicode.IsUpper(c) {
		return "exported"
	}
	return "unexported"
}

// hasBlankField: some struct declares a field `_ T`
func (in *Input) hasBlankField() bool {
	for _, d := range in.Decls {
		for _, f := range d.Fields {
			if f.Name == "_" {
				return true
			}
		}
	}
	return false
}

// namePicker: k field names for one struct, distinct except that the blank identifier may repeat
type namePicker func(r *core.RNG, k int) []string

func shuffled(r *core.RNG, xs []string) []string {
	ys := append([]string(nil), xs...)
	for i := len(ys) - 1; i > 0; i-- {
		j := r.Intn(i + 1)
		ys[i], ys[j] = ys[j], ys[i]
	}
	return ys
}

// pickFrom: names of one shape; when the shape runs out (and for the blank shape, which has one name) the rest are
// plain exported names, at random positions
func pickFrom(shape nameShape) namePicker {
	return func(r *core.RNG, k int) []string {
		out := shuffled(r, shape.names)
		if shape.tag == "blank" {
			out = []string{"_"}
			if k > 2 && r.Bool() {
				out = append(out, "_") // two blank fields in one struct are legal
			}
		}
		if len(out) > k {
			out = out[:k]
		}
		for j := 0; len(out) < k; j++ {
			at := r.Intn(len(out) + 1)
			out = append(out[:at], append([]string{fmt.Sprintf("P%d", j)}, out[at:]...)...)
		}
		return out
	}
}

// pickMixed: every field's name from a shape of its own
func pickMixed(r *core.RNG, k int) []string {
	used := map[string]bool{}
	var out []string
	for len(out) < k {
		n := core.Pick(r, core.Pick(r, nameShapes).names)
		if n == "_" && r.Chance(60) {
			continue // the blank shape has a single name: do not let it take a seventh of all fields
		}
		if used[n] && n != "_" {
			continue
		}
		used[n] = true
		out = append(out, n)
	}
	return out
}

// nameFamilyInput: a package in which every struct takes its field names from pick - the tagged Root (a slice, a map, a
// scalar, an untagged struct by value, an instantiated generic struct, a defined map), the untagged Mid below it (a
// struct by value, a slice, a map), the untagged Leaf below Mid (slice, map, scalar) and the untagged generic Box[T] (a
// bare type-parameter field and a slice): the names occur at nesting depth 1 to 3, in tagged and untagged types, on every
// kind of field.
func nameFamilyInput(r *core.RNG, pick namePicker, seed uint64) Input {
	ln := pick(r, 3)
	leaf := st("Leaf", false, fsl(ln[0], core.Pick(r, basics)), fm(ln[1], core.Pick(r, mapKeys), core.Pick(r, basics)), fb(ln[2], core.Pick(r, basics)))
	mn := pick(r, 3)
	mid := st("Mid", false, fn(mn[0], "Leaf"), fsl(mn[1], "string"), fm(mn[2], "string", core.Pick(r, basics)))
	bn := pick(r, 2)
	box := Decl{Name: "Box", Kind: DStruct, TParams: []string{"T"}, Fields: []Field{fp(bn[0], KTParam, "T"), fsl(bn[1], "int")}}
	nm := Decl{Name: "NM", Kind: DMap, Key: "string", Elem: "int"}
	rn := pick(r, 6)
	root := st("Root", true, fsl(rn[0], "int"), fm(rn[1], "string", "bool"), fb(rn[2], "int64"), fn(rn[3], "Mid"), fn(rn[4], "Box", "string"), fn(rn[5], "NM"))
	for _, d := range []*Decl{&leaf, &mid, &root} { // field order is part of the quantifier
		for i := len(d.Fields) - 1; i > 0; i-- {
			j := r.Intn(i + 1)
			d.Fields[i], d.Fields[j] = d.Fields[j], d.Fields[i]
		}
	}
	decls := []Decl{leaf, mid, box, nm, root}
	for i := len(decls) - 1; i > 0; i-- {
		j := r.Intn(i + 1)
		decls[i], decls[j] = decls[j], decls[i]
	}
	return Input{Seed: seed, Decls: decls}
}

// renameFields: the same type graph with every struct's fields renamed by pick
func renameFields(r *core.RNG, in Input, pick namePicker) Input {
	for i := range in.Decls {
		d := &in.Decls[i]
		if d.Kind != DStruct || len(d.Fields) == 0 {
			continue
		}
		ns := pick(r, len(d.Fields))
		fs := append([]Field(nil), d.Fields...)
		for j := range fs {
			fs[j].Name = ns[j]
		}
		d.Fields = fs
	}
	return in
}

// fieldNameInputs: quick = one package per shape and three with mixed shapes; thorough = six per shape, thirty mixed.
// (A share of the random layered graphs, trees and generic packages is renamed as well: see Generate.)
func fieldNameInputs(r *core.RNG, tier string) []Input {
	per, mixed := 1, 3
	if tier == "thorough" {
		per, mixed = 6, 30
	}
	var out []Input
	for _, s := range nameShapes {
		for i := 0; i < per; i++ {
			out = append(out, nameFamilyInput(r.Fork(), pickFrom(s), r.Uint64()%1000000))
		}
	}
	for i := 0; i < mixed; i++ {
		out = append(out, nameFamilyInput(r.Fork(), pickMixed, r.Uint64()%1000000))
	}
	return out
}

// ---- GeneratorArgs.OutputFileBaseName x run sequence ----
//
// Added after seeded change C17-n (a type that "already declares DeepCopyInto outside a generated file" is skipped, a
// generated file being recognised by the hard-coded prefix "zz_generated.").  "The same on the first and on later runs"
// is a statement about every way the generator can be configured: the name of the file it writes is an option
// (OutputFileBaseName + ".deepcopy.go"), and a later run reads the earlier run's file under that name.  Every harness run
// used the conventional "zz_generated".  Names: some that do not start with zz_generated, one of which it is a proper
// prefix (zz_generated_api), one that continues it after a dot (zz_generated.x), one that sorts before the hand-written
// files (a_generated: go/types then lists the generated methods first), upper case, a dot inside.  Not "types" or
// "doc": gengo removes files named <base>.* that it did not write.
var baseNames = []string{"generated", "zz_gen", "zz_generated_api", "a_generated", "zz", "Generated", "gen.v2", "zz_generated.x", "deepcopy"}

// richPackage: the shapes whose output depends on what an earlier run left (a defined map as a field, untagged
// dependencies two levels deep, an instantiated generic struct), an error field, a defined scalar, the interfaces tag
func richPackage(variant int, seed uint64) Input {
	switch variant % 3 {
	case 0:
		return Input{Seed: seed, Decls: []Decl{
			{Name: "Labels", Kind: DMap, Key: "string", Elem: "string"},
			{Name: "Level", Kind: DScalar, Tag: true, Base: "int32", Strs: true},
			{Name: "Page", Kind: DStruct, TParams: []string{"T"}, Fields: []Field{fp("Item", KTParam, "T"), fb("Total", "int"), fsl("Rows", "string")}},
			st("Inner", false, fsl("S", "float64"), fm("M", "int", "bool")),
			st("Dep", false, fn("In", "Inner"), fsl("X", "int")),
			{Name: "Root", Kind: DStruct, Ifaces: true, Fields: []Field{fn("L", "Labels"), fn("D", "Dep"), fn("P", "Page", "int"), fn("Lv", "Level"), fk("E", KError), fm("M", "string", "int")}},
		}}
	case 1:
		c := corner()[7]
		c.Seed = seed
		return c
	}
	c := corner()[9]
	c.Seed = seed
	return c
}

// baseNameInputs: quick = five names (the first four and a random one of the rest) on the rich packages in turn, plus the
// default name on the first; thorough = every name x every rich package.  (A fifth of the random stream takes a random
// name as well: see Generate.)  Every case is three runs, each in a fresh process over what the previous one left.
func baseNameInputs(r *core.RNG, tier string) []Input {
	var out []Input
	add := func(base string, variant int) {
		in := richPackage(variant, r.Uint64()%1000000)
		in.Base = base
		out = append(out, in)
	}
	add("", 0)
	if tier == "thorough" {
		for _, b := range baseNames {
			for v := 0; v < 3; v++ {
				add(b, v)
			}
		}
		return out
	}
	for i, b := range baseNames[:4] {
		add(b, i)
	}
	add(baseNames[4+r.Intn(len(baseNames)-4)], 1)
	return out
}

// ---- fields declared through aliases ----
//
// Added with the finding alias_container_field_shared (fixes/C17-alias-container-field.diff): createFieldSnippet switched
// on the DECLARED field type; `type Labels = map[string]string` is a *types.Alias there, fell into the default branch and
// the field was assigned - copy and original shared the map.  An alias and the type it denotes are identical types: what is
// generated for a field must not depend on whether its type is written through an alias.  Family: aliases of slice / map /
// scalar types, of same-package structs, defined maps, defined scalars, instantiated generic structs, of error and
// time.Duration, of another alias; declared in the same package and in a sibling package (ext); in the tagged root and
// in an untagged dependency.
func aliasDecl(name string, of Field) Decl { return Decl{Name: name, Kind: DAlias, Of: &of} }
func fa(name, alias string) Field          { return Field{Name: name, K: KAlias, A: alias} }

// aliasProbe: the package of the report
func aliasProbe(seed uint64) Input {
	return Input{Seed: seed, Decls: []Decl{
		aliasDecl("Labels", fm("", "string", "string")), aliasDecl("Names", fsl("", "string")),
		st("T", true, fa("Labels", "Labels"), fa("Names", "Names"), fm("Plain", "string", "string")),
	}}
}

// aliasFamilyInput: pct = the share of the candidate fields that is taken (100: all of them)
func aliasFamilyInput(r *core.RNG, pct int, seed uint64) Input {
	decls := []Decl{
		aliasDecl("Labels", fm("", "string", "string")), aliasDecl("Names", fsl("", "string")), aliasDecl("Count", fb("", "int")),
		st("Dep", false, fsl("S", "int"), fm("M", "string", "bool")), aliasDecl("DepA", fn("", "Dep")),
		{Name: "NM", Kind: DMap, Key: "string", Elem: "int"}, aliasDecl("NMA", fn("", "NM")),
		{Name: "Lvl", Kind: DScalar, Base: "int32"}, aliasDecl("LvlA", fn("", "Lvl")),
		{Name: "Box", Kind: DStruct, TParams: []string{"T"}, Fields: []Field{fp("V", KTParam, "T"), fsl("S", "int")}}, aliasDecl("IntBox", fn("", "Box", "int")),
		aliasDecl("L2", fa("", "Labels")), aliasDecl("Span", fk("", KForeign)), aliasDecl("Err", fk("", KError)),
	}
	cands := []Field{fa("Labels", "Labels"), fa("Names", "Names"), fa("C", "Count"), fa("D", "DepA"), fa("M", "NMA"), fa("L", "LvlA"),
		fa("B", "IntBox"), fa("LL", "L2"), fa("Sp", "Span"), fa("E", "Err"), fa("X", "ext.Items"), fa("W", "ext.Words"), fa("Y", "ext.Index"),
		fa("Fl", "ext.Flags"), fa("Z", "ext.Count"), fa("V", "ext.Span")}
	take := func() []Field {
		var fs []Field
		for _, c := range shuffled2(r, cands) {
			if r.Chance(pct) {
				fs = append(fs, c)
			}
		}
		if len(fs) == 0 {
			fs = append(fs, core.Pick(r, cands[:2]))
		}
		return fs
	}
	mid := st("Mid", false, take()...)
	mid.Fields = append(mid.Fields, fsl("Own", "float64"))
	root := st("Root", true, take()...)
	root.Fields = append(root.Fields, fm("Plain", "string", "string"))
	at := r.Intn(len(root.Fields) + 1)
	root.Fields = append(root.Fields[:at], append([]Field{fn("Mid", "Mid")}, root.Fields[at:]...)...)
	decls = append(decls, mid, root)
	for i := len(decls) - 1; i > 0; i-- {
		j := r.Intn(i + 1)
		decls[i], decls[j] = decls[j], decls[i]
	}
	return Input{Seed: seed, Decls: decls}
}

func shuffled2(r *core.RNG, xs []Field) []Field {
	ys := append([]Field(nil), xs...)
	for i := len(ys) - 1; i > 0; i-- {
		j := r.Intn(i + 1)
		ys[i], ys[j] = ys[j], ys[i]
	}
	return ys
}

// aliasify: the same type graph with a share of the fields declared through a fresh same-package alias of their type
func aliasify(r *core.RNG, in Input, pct int) Input {
	used := map[string]bool{"Object": true, "Keep": true}
	for _, d := range in.Decls {
		used[d.Name] = true
	}
	var added []Decl
	for i := range in.Decls {
		d := &in.Decls[i]
		if d.Kind != DStruct {
			continue
		}
		fs := append([]Field(nil), d.Fields...)
		for j, f := range fs {
			switch f.K {
			case KBasic, KSlice, KMap, KNamed, KError, KForeign:
			default:
				continue // a type parameter cannot be aliased outside its struct; any / interface{} stay as they are
			}
			if len(d.TParams) > 0 && f.K == KNamed && len(f.Args) > 0 {
				continue
			}
			if !r.Chance(pct) {
				continue
			}
			name := ""
			for name == "" || used[name] {
				name = fmt.Sprintf("Al%c%d", 'A'+rune(r.Intn(26)), r.Intn(100))
			}
			used[name] = true
			of := f
			of.Name = ""
			added = append(added, aliasDecl(name, of))
			fs[j] = fa(f.Name, name)
		}
		d.Fields = fs
	}
	in.Decls = append(append([]Decl(nil), in.Decls...), added...)
	return in
}

// aliasInputs: quick = the probe, the package with every alias kind, four random subsets; thorough adds thirty.
// (A quarter of the random stream is aliasified as well: see Generate.)
func aliasInputs(r *core.RNG, tier string) []Input {
	out := []Input{aliasProbe(r.Uint64() % 1000000), aliasFamilyInput(r.Fork(), 100, r.Uint64()%1000000)}
	n := 4
	if tier == "thorough" {
		n = 34
	}
	for i := 0; i < n; i++ {
		out = append(out, aliasFamilyInput(r.Fork(), 25+r.Intn(50), r.Uint64()%1000000))
	}
	return out
}
