package c17

import (
	"bytes"
	"fmt"
	"go/ast"
	"go/parser"
	"go/printer"
	"go/token"
	"regexp"
	"strings"

	"verifharness/internal/core"
)

// Statement IR of a generated DeepCopyInto body (Model/DeepCopy.v `stmt`).
type Stmt struct {
	Op string `json:"op"` // assign | slice | map | into | copyval | copyderef | star | other
	F  string `json:"f,omitempty"`
	Ty string `json:"ty,omitempty"` // the type literal inside make(...), spaces removed
}

// Method IR (Model/DeepCopy.v `method`).
type Method struct {
	Op    string   `json:"op"`            // object | ptrcopy | ptrinto | mapcopy | mapinto | unknown
	T     string   `json:"t"`             // receiver type name: S, Box
	TP    []string `json:"tp,omitempty"`  // its type parameters as written in the receiver: T0, T1
	Ptr   bool     `json:"ptr,omitempty"` // object: pointer receiver
	Iface string   `json:"iface,omitempty"`
	Body  []Stmt   `json:"body,omitempty"`
	Text  string   `json:"text,omitempty"` // unknown: the source
}

func nospace(s string) string { return strings.Join(strings.Fields(s), "") }

func printNode(fset *token.FileSet, n any) string {
	var b bytes.Buffer
	_ = (&printer.Config{Mode: printer.RawFormat, Tabwidth: 1}).Fprint(&b, fset, n)
	// normalise all runs of white space to one blank: shapes are compared, not layout
	return strings.Join(strings.Fields(b.String()), " ")
}

const ty = `([\pL_][\pL\p{Nd}_]*(?:\[[^\]]*\])?)` // receiver type, possibly with type parameters
const id = `([\pL_][\pL\p{Nd}_]*)`                  // a Go identifier: letter = Unicode letter or _, digit = Unicode Nd

var (
	reObject  = regexp.MustCompile(`^func \(in (\*?)` + ty + `\) DeepCopyObject\(\) ` + id + ` \{ if c := in\.DeepCopy\(\); c != nil \{ return c \} return nil \}$`)
	rePtrCopy = regexp.MustCompile(`^func \(in \*` + ty + `\) DeepCopy\(\) \*` + ty + ` \{ if in == nil \{ return nil \} out := new\(` + ty + `\) in\.DeepCopyInto\(out\) return out \}$`)
	rePtrInto = regexp.MustCompile(`^func \(in \*` + ty + `\) DeepCopyInto\(out \*` + ty + `\) \{`)
	reMapCopy = regexp.MustCompile(`^func \(in ` + ty + `\) DeepCopy\(\) ` + ty + ` \{ if in == nil \{ return nil \} out := make\(` + ty + `\) in\.DeepCopyInto\(out\) return out \}$`)
	reMapInto = regexp.MustCompile(`^func \(in ` + ty + `\) DeepCopyInto\(out ` + ty + `\) \{ for k := range in \{ out\[k\] = in\[k\] \} \}$`)

	reAssign = regexp.MustCompile(`^out\.` + id + ` = in\.` + id + `$`)
	reStar   = regexp.MustCompile(`^\*out = \*in$`)
	reInto   = regexp.MustCompile(`^in\.` + id + `\.DeepCopyInto\(&out\.` + id + `\)$`)
	reVal    = regexp.MustCompile(`^out\.` + id + ` = in\.` + id + `\.DeepCopy\(\)$`)
	reDeref  = regexp.MustCompile(`^out\.` + id + ` = \*in\.` + id + `\.DeepCopy\(\)$`)
	reSlice  = regexp.MustCompile(`^if in\.` + id + ` != nil \{ i, o := &in\.` + id + `, &out\.` + id + ` \*o = make\((.+), len\(\*i\)\) copy\(\*o, \*i\) \}$`)
	reMap    = regexp.MustCompile(`^if in\.` + id + ` != nil \{ i, o := &in\.` + id + `, &out\.` + id + ` \*o = make\((.+), len\(\*i\)\) for key, val := range \*i \{ \(\*o\)\[key\] = val \} \}$`)
)

// splitRecv: "Box[T0, T1]" -> "Box", [T0 T1]
func splitRecv(s string) (string, []string) {
	s = nospace(s)
	i := strings.Index(s, "[")
	if i < 0 || !strings.HasSuffix(s, "]") {
		return s, nil
	}
	return s[:i], strings.Split(s[i+1:len(s)-1], ",")
}

func hexList(xs []string) string {
	var ys []string
	for _, x := range xs {
		ys = append(ys, core.Hex(x))
	}
	return core.CoqList(ys)
}

func allSame(xs ...string) bool {
	for _, x := range xs[1:] {
		if nospace(x) != nospace(xs[0]) {
			return false
		}
	}
	return true
}

func abstractStmt(fset *token.FileSet, s ast.Stmt) Stmt {
	txt := printNode(fset, s)
	if m := reAssign.FindStringSubmatch(txt); m != nil && allSame(m[1], m[2]) {
		return Stmt{Op: "assign", F: m[1]}
	}
	if reStar.MatchString(txt) {
		return Stmt{Op: "star"}
	}
	if m := reInto.FindStringSubmatch(txt); m != nil && allSame(m[1], m[2]) {
		return Stmt{Op: "into", F: m[1]}
	}
	if m := reVal.FindStringSubmatch(txt); m != nil && allSame(m[1], m[2]) {
		return Stmt{Op: "copyval", F: m[1]}
	}
	if m := reDeref.FindStringSubmatch(txt); m != nil && allSame(m[1], m[2]) {
		return Stmt{Op: "copyderef", F: m[1]}
	}
	if m := reSlice.FindStringSubmatch(txt); m != nil && allSame(m[1], m[2], m[3]) {
		return Stmt{Op: "slice", F: m[1], Ty: nospace(m[4])}
	}
	if m := reMap.FindStringSubmatch(txt); m != nil && allSame(m[1], m[2], m[3]) {
		return Stmt{Op: "map", F: m[1], Ty: nospace(m[4])}
	}
	return Stmt{Op: "other", Ty: txt}
}

// parseGenerated abstracts a generated deepcopy file to the method IR.  err != nil: the file does not parse.
func parseGenerated(src []byte) ([]Method, []string, error) {
	fset := token.NewFileSet()
	f, err := parser.ParseFile(fset, "zz_generated.deepcopy.go", src, parser.SkipObjectResolution)
	if err != nil {
		return nil, nil, err
	}
	var imports []string
	for _, im := range f.Imports {
		n := ""
		if im.Name != nil {
			n = im.Name.Name + " "
		}
		imports = append(imports, n+im.Path.Value)
	}
	var ms []Method
	for _, d := range f.Decls {
		fd, ok := d.(*ast.FuncDecl)
		if !ok {
			if gd, ok := d.(*ast.GenDecl); ok && gd.Tok == token.IMPORT {
				continue
			}
			ms = append(ms, Method{Op: "unknown", Text: printNode(fset, d)})
			continue
		}
		txt := printNode(fset, fd)
		switch {
		case reObject.MatchString(txt):
			m := reObject.FindStringSubmatch(txt)
			t, tp := splitRecv(m[2])
			ms = append(ms, Method{Op: "object", T: t, TP: tp, Ptr: m[1] == "*", Iface: m[3]})
		case rePtrCopy.MatchString(txt):
			m := rePtrCopy.FindStringSubmatch(txt)
			if allSame(m[1], m[2], m[3]) {
				t, tp := splitRecv(m[1])
				ms = append(ms, Method{Op: "ptrcopy", T: t, TP: tp})
			} else {
				ms = append(ms, Method{Op: "unknown", Text: txt})
			}
		case reMapCopy.MatchString(txt):
			m := reMapCopy.FindStringSubmatch(txt)
			if allSame(m[1], m[2], m[3]) {
				ms = append(ms, Method{Op: "mapcopy", T: nospace(m[1])})
			} else {
				ms = append(ms, Method{Op: "unknown", Text: txt})
			}
		case reMapInto.MatchString(txt):
			m := reMapInto.FindStringSubmatch(txt)
			if allSame(m[1], m[2]) {
				ms = append(ms, Method{Op: "mapinto", T: nospace(m[1])})
			} else {
				ms = append(ms, Method{Op: "unknown", Text: txt})
			}
		case rePtrInto.MatchString(txt):
			m := rePtrInto.FindStringSubmatch(txt)
			if !allSame(m[1], m[2]) {
				ms = append(ms, Method{Op: "unknown", Text: txt})
				break
			}
			t, tp := splitRecv(m[1])
			mm := Method{Op: "ptrinto", T: t, TP: tp, Body: []Stmt{}}
			for _, s := range fd.Body.List {
				mm.Body = append(mm.Body, abstractStmt(fset, s))
			}
			ms = append(ms, mm)
		default:
			ms = append(ms, Method{Op: "unknown", Text: txt})
		}
	}
	return ms, imports, nil
}

// ---- Coq terms ----

func coqStmt(s Stmt) string {
	switch s.Op {
	case "assign":
		return "SAssign " + core.Hex(s.F)
	case "star":
		return "SStar"
	case "into":
		return "SCallInto " + core.Hex(s.F)
	case "copyval":
		return "SCallCopyVal " + core.Hex(s.F)
	case "copyderef":
		return "SCallCopyDeref " + core.Hex(s.F)
	case "slice":
		return fmt.Sprintf("SCopySlice %s %s", core.Hex(s.F), core.Hex(s.Ty))
	case "map":
		return fmt.Sprintf("SCopyMap %s %s", core.Hex(s.F), core.Hex(s.Ty))
	}
	return "SOther"
}

func coqMethod(m Method) string {
	switch m.Op {
	case "object":
		return fmt.Sprintf("MObject %s %s %s %s", core.Hex(m.T), hexList(m.TP), core.Hex(m.Iface), core.CoqBool(m.Ptr))
	case "ptrcopy":
		return fmt.Sprintf("MPtrCopy %s %s", core.Hex(m.T), hexList(m.TP))
	case "mapcopy":
		return "MMapCopy " + core.Hex(m.T)
	case "mapinto":
		return "MMapInto " + core.Hex(m.T)
	case "ptrinto":
		var ss []string
		for _, s := range m.Body {
			ss = append(ss, coqStmt(s))
		}
		return fmt.Sprintf("MPtrInto %s %s %s", core.Hex(m.T), hexList(m.TP), core.CoqList(ss))
	}
	return "MUnknown"
}

func coqMethods(ms []Method) string {
	var xs []string
	for _, m := range ms {
		xs = append(xs, coqMethod(m))
	}
	return core.CoqList(xs)
}
