package c17

import (
	"encoding/json"

	"verifharness/internal/core"
)

func enc(in Input) json.RawMessage {
	b, _ := json.Marshal(in)
	return b
}

func st(name string, tag bool, fields ...Field) Decl {
	return Decl{Name: name, Kind: DStruct, Tag: tag, Fields: fields}
}
func fb(name, t string) Field              { return Field{Name: name, K: KBasic, A: t} }
func fsl(name, e string) Field             { return Field{Name: name, K: KSlice, A: e} }
func fm(name, k, e string) Field           { return Field{Name: name, K: KMap, A: k, B: e} }
func fn(name, t string, a ...string) Field { return Field{Name: name, K: KNamed, A: t, Args: a} }
func fk(name, k string) Field              { return Field{Name: name, K: k} }
func fp(name, k, a string) Field           { return Field{Name: name, K: k, A: a} }

// fixed corner cases (the property's named cases first)
func corner() []Input {
	return []Input{
		// plain struct: scalars, slice, map
		{Decls: []Decl{st("S", true, fb("A", "int"), fb("B", "string"), fsl("C", "int"), fm("D", "string", "int"))}, Seed: 1},
		// error field
		{Decls: []Decl{st("S", true, fb("A", "int"), fk("E", KError))}, Seed: 2},
		// same-package named map field
		{Decls: []Decl{{Name: "M", Kind: DMap, Tag: true, Key: "string", Elem: "int"}, st("S", true, fn("F", "M"))}, Seed: 3},
		// untagged dependency
		{Decls: []Decl{st("Dep", false, fsl("X", "int")), st("Root", true, fn("D", "Dep"))}, Seed: 4},
		// generic struct + field of an instantiation
		{Decls: []Decl{{Name: "Box", Kind: DStruct, Tag: true, TParams: []string{"T"}, Fields: []Field{fp("V", KTParam, "T"), fsl("S", "int")}},
			st("Root", true, fn("B", "Box", "int"))}, Seed: 5},
		// same-package named interface field
		{Decls: []Decl{{Name: "NI", Kind: DIface}, st("Root", true, fn("I", "NI"), fsl("S", "string"))}, Seed: 6},
		// the DESIGN.md witness: all three
		{Decls: []Decl{{Name: "Box", Kind: DStruct, TParams: []string{"T"}, Fields: []Field{fp("V", KTParam, "T")}},
			st("Dep", false, fsl("X", "int")), {Name: "NI", Kind: DIface},
			st("Root", true, fn("D", "Dep"), fn("B", "Box", "int"), fn("I", "NI"))}, Seed: 7},
		// package tag, defined scalar, nesting depth 3, interfaces tag
		{PkgTag: true, Decls: []Decl{
			{Name: "N", Kind: DScalar, Base: "int64", Strs: true},
			st("A", false, fn("B", "B"), fsl("S", "string")),
			st("B", false, fn("C", "C"), fm("M", "int", "bool")),
			{Name: "C", Kind: DStruct, Ifaces: true, Fields: []Field{fn("N", "N"), fsl("S", "float64"), fk("X", KAny), fk("Y", KIface)}},
		}, Seed: 8},
		// named map with interfaces tag only; foreign scalar
		{Decls: []Decl{{Name: "M", Kind: DMap, Ifaces: true, Key: "int", Elem: "string"}, st("S", true, fn("F", "M"), fk("D", KForeign))}, Seed: 9},
	}
}

func (prop) Generate(r *core.RNG, tier string) []json.RawMessage {
	var out []json.RawMessage
	for _, c := range corner() {
		out = append(out, enc(c))
	}
	return out
}

func (prop) Shrink(raw json.RawMessage) []json.RawMessage {
	return nil
}
