package c17

import (
	"encoding/json"
	"fmt"
	"sort"

	"verifharness/internal/core"
)

func enc(in Input) json.RawMessage {
	b, _ := json.Marshal(in)
	return b
}

func st(name string, tag bool, fields ...Field) Decl {
	return Decl{Name: name, Kind: DStruct, Tag: tag, Fields: fields}
}
func fb(name, t string) Field              { return Field{Name: name, K: KBasic, A: t} }
func fsl(name, e string) Field             { return Field{Name: name, K: KSlice, A: e} }
func fm(name, k, e string) Field           { return Field{Name: name, K: KMap, A: k, B: e} }
func fn(name, t string, a ...string) Field { return Field{Name: name, K: KNamed, A: t, Args: a} }
func fk(name, k string) Field              { return Field{Name: name, K: k} }
func fp(name, k, a string) Field           { return Field{Name: name, K: k, A: a} }

// fixed corner cases (the property's named cases first)
func corner() []Input {
	return []Input{
		// plain struct: scalars, slice, map
		{Decls: []Decl{st("S", true, fb("A", "int"), fb("B", "string"), fsl("C", "int"), fm("D", "string", "int"))}, Seed: 1},
		// error field
		{Decls: []Decl{st("S", true, fb("A", "int"), fk("E", KError))}, Seed: 2},
		// same-package named map field
		{Decls: []Decl{{Name: "M", Kind: DMap, Tag: true, Key: "string", Elem: "int"}, st("S", true, fn("F", "M"))}, Seed: 3},
		// untagged dependency
		{Decls: []Decl{st("Dep", false, fsl("X", "int")), st("Root", true, fn("D", "Dep"))}, Seed: 4},
		// generic struct + field of an instantiation
		{Decls: []Decl{{Name: "Box", Kind: DStruct, Tag: true, TParams: []string{"T"}, Fields: []Field{fp("V", KTParam, "T"), fsl("S", "int")}},
			st("Root", true, fn("B", "Box", "int"))}, Seed: 5},
		// same-package named interface field
		{Decls: []Decl{{Name: "NI", Kind: DIface}, st("Root", true, fn("I", "NI"), fsl("S", "string"))}, Seed: 6},
		// the DESIGN.md witness: all three
		{Decls: []Decl{{Name: "Box", Kind: DStruct, TParams: []string{"T"}, Fields: []Field{fp("V", KTParam, "T")}},
			st("Dep", false, fsl("X", "int")), {Name: "NI", Kind: DIface},
			st("Root", true, fn("D", "Dep"), fn("B", "Box", "int"), fn("I", "NI"))}, Seed: 7},
		// package tag, defined scalar, nesting depth 3, interfaces tag
		{PkgTag: true, Decls: []Decl{
			{Name: "N", Kind: DScalar, Base: "int64", Strs: true},
			st("A", false, fn("B", "B"), fsl("S", "string")),
			st("B", false, fn("C", "C"), fm("M", "int", "bool")),
			{Name: "C", Kind: DStruct, Ifaces: true, Fields: []Field{fn("N", "N"), fsl("S", "float64"), fk("X", KAny), fk("Y", KIface)}},
		}, Seed: 8},
		// named map with interfaces tag only; foreign scalar
		{Decls: []Decl{{Name: "M", Kind: DMap, Ifaces: true, Key: "int", Elem: "string"}, st("S", true, fn("F", "M"), fk("D", KForeign))}, Seed: 9},
		// dependency order against name order, untagged chain of depth 4, two instantiations of one generic struct
		{Decls: []Decl{
			st("A", true, fn("Z", "Z"), fsl("S", "int")),
			st("Z", false, fn("Y", "Y"), fm("M", "string", "string")),
			st("Y", false, fn("X", "X"), fn("P", "Pair", "int", "string"), fn("Q", "Pair", "string", "bool")),
			st("X", false, fsl("S", "bool"), fn("NM", "NM")),
			{Name: "NM", Kind: DMap, Key: "string", Elem: "float64"},
			{Name: "Pair", Kind: DStruct, TParams: []string{"K", "V"}, Fields: []Field{fp("K", KTParam, "K"), fp("V", KTParam, "V"), fm("M", "string", "int")}},
		}, Seed: 10},
		// import name of an element type's package: harmless name, then names of the template's locals
		{ShadowPkg: "q", Decls: []Decl{st("S", true, fsl("A", "q.Item"), fm("B", "string", "q.Item"))}, Seed: 11},
		{ShadowPkg: "o", Decls: []Decl{st("S", true, fsl("A", "o.Item"))}, Seed: 12},
		{ShadowPkg: "val", Decls: []Decl{st("S", true, fm("B", "string", "val.Item"))}, Seed: 13},
		{ShadowPkg: "in", Decls: []Decl{st("S", true, fsl("A", "in.Item"))}, Seed: 14},
	}
}

// ifaceOrders: a tagged struct with a same-package interface field and two untagged same-package dependencies, in every
// field order (an interface among the local dependencies must not end the generation of the ones after it: seeded C17-k,
// which the random stream caught at first and lost when the stream shifted), with the tag also on the interface.
func ifaceOrders() []Input {
	fields := []Field{fn("Owner", "Object"), fn("Meta", "Meta"), fn("Spec", "Spec")}
	perms := [][]int{{0, 1, 2}, {0, 2, 1}, {1, 0, 2}, {1, 2, 0}, {2, 0, 1}, {2, 1, 0}}
	var out []Input
	for i, pm := range perms {
		fs := []Field{fb("N", "int")}
		for _, k := range pm {
			fs = append(fs, fields[k])
		}
		out = append(out, Input{Decls: []Decl{
			{Name: "Object", Kind: DIface, Tag: i%2 == 1},
			st("Meta", false, fsl("Labels", "string"), fm("Ann", "string", "string")),
			st("Spec", false, fsl("Ports", "int")),
			st("Root", true, fs...),
		}, Seed: uint64(200 + i)})
	}
	return out
}

var basics = []string{"int", "string", "bool", "float64", "int64", "uint8", "int32", "uint", "uint16", "float32"}
var mapKeys = []string{"string", "int", "int64", "uint8"}
var shadowNames = []string{"o", "i", "in", "out", "key", "val", "q", "item"}

type builder struct {
	r     *core.RNG
	used  map[string]bool
	decls []Decl
}

func (b *builder) name(prefix string) string {
	for {
		n := fmt.Sprintf("%s%c%d", prefix, 'A'+rune(b.r.Intn(26)), b.r.Intn(50))
		if !b.used[n] && n != "Object" && n != "Keep" {
			b.used[n] = true
			return n
		}
	}
}

func (b *builder) tags(d *Decl, pTag, pIfaces int) {
	d.Tag = b.r.Chance(pTag)
	d.Ifaces = b.r.Chance(pIfaces)
	if d.Kind != DIface && len(d.TParams) == 0 {
		d.Strs = b.r.Chance(15)
	}
}

func (b *builder) leaf(name string) Field {
	switch k := b.r.Intn(100); {
	case k < 30:
		return fb(name, core.Pick(b.r, basics))
	case k < 55:
		return fsl(name, core.Pick(b.r, basics))
	case k < 78:
		return fm(name, core.Pick(b.r, mapKeys), core.Pick(b.r, basics))
	case k < 85:
		return fk(name, KError)
	case k < 90:
		return fk(name, KAny)
	case k < 94:
		return fk(name, KIface)
	default:
		return fk(name, KForeign)
	}
}

// randomInput: a layered type graph; structs of level l refer to structs of lower levels by value.
func randomInput(r *core.RNG, seed uint64) Input {
	b := &builder{r: r, used: map[string]bool{}}
	in := Input{Seed: seed, PkgTag: r.Chance(25)}
	var maps, scalars, ifaces, generics []Decl
	for i := r.Intn(3); i > 0; i-- {
		d := Decl{Name: b.name("M"), Kind: DMap, Key: core.Pick(r, mapKeys), Elem: core.Pick(r, basics)}
		b.tags(&d, 50, 12)
		maps = append(maps, d)
	}
	for i := r.Intn(3); i > 0; i-- {
		d := Decl{Name: b.name("N"), Kind: DScalar, Base: core.Pick(r, basics)}
		b.tags(&d, 50, 8)
		scalars = append(scalars, d)
	}
	for i := r.Intn(2); i > 0; i-- {
		ifaces = append(ifaces, Decl{Name: b.name("I"), Kind: DIface, Tag: r.Chance(30)})
	}
	for i := r.Intn(3); i > 0; i-- {
		d := Decl{Name: b.name("G"), Kind: DStruct}
		for k := 1 + r.Intn(2); k > 0; k-- {
			d.TParams = append(d.TParams, fmt.Sprintf("T%d", len(d.TParams)))
		}
		nf := 1 + r.Intn(4)
		for k := 0; k < nf; k++ {
			fname := fmt.Sprintf("F%d", k)
			switch {
			case k == 0 || r.Chance(40):
				d.Fields = append(d.Fields, fp(fname, KTParam, core.Pick(r, d.TParams)))
			case len(maps) > 0 && r.Chance(25):
				d.Fields = append(d.Fields, fn(fname, core.Pick(r, maps).Name))
			default:
				d.Fields = append(d.Fields, b.leaf(fname))
			}
		}
		b.tags(&d, 50, 10)
		generics = append(generics, d)
	}
	levels := 1 + r.Intn(4)
	var lower []Decl // structs of lower levels
	var all []Decl
	for l := 0; l < levels; l++ {
		width := 1 + r.Intn(2)
		if l == levels-1 {
			width = 1
		}
		var cur []Decl
		for w := 0; w < width; w++ {
			d := Decl{Name: b.name("S"), Kind: DStruct}
			nf := 1 + r.Intn(6)
			for k := 0; k < nf; k++ {
				fname := fmt.Sprintf("F%d", k)
				switch c := r.Intn(100); {
				case len(lower) > 0 && (c < 30 || (k == 0 && l > 0)):
					// at least one field of the previous level keeps the nesting depth
					t := lower[len(lower)-1-r.Intn(min(len(lower), 2))]
					if k != 0 {
						t = core.Pick(r, lower)
					}
					d.Fields = append(d.Fields, fn(fname, t.Name))
				case c < 40 && len(maps) > 0:
					d.Fields = append(d.Fields, fn(fname, core.Pick(r, maps).Name))
				case c < 48 && len(scalars) > 0:
					d.Fields = append(d.Fields, fn(fname, core.Pick(r, scalars).Name))
				case c < 54 && len(ifaces) > 0:
					d.Fields = append(d.Fields, fn(fname, core.Pick(r, ifaces).Name))
				case c < 64 && len(generics) > 0:
					g := core.Pick(r, generics)
					var args []string
					for range g.TParams {
						// the argument: a basic type, or a same-package defined map / scalar / struct of a lower level
						var local []string
						for _, m := range maps {
							local = append(local, m.Name)
						}
						for _, m := range scalars {
							local = append(local, m.Name)
						}
						for _, m := range lower {
							local = append(local, m.Name)
						}
						if len(local) > 0 && r.Chance(35) {
							args = append(args, core.Pick(r, local))
						} else {
							args = append(args, core.Pick(r, basics))
						}
					}
					d.Fields = append(d.Fields, fn(fname, g.Name, args...))
				default:
					d.Fields = append(d.Fields, b.leaf(fname))
				}
			}
			// field order is part of the quantifier: shuffle
			for i := len(d.Fields) - 1; i > 0; i-- {
				j := r.Intn(i + 1)
				d.Fields[i], d.Fields[j] = d.Fields[j], d.Fields[i]
			}
			b.tags(&d, 45, 12)
			cur = append(cur, d)
		}
		lower = append(lower, cur...)
		all = append(all, cur...)
	}
	// the top struct is always enabled, so that something is generated
	all[len(all)-1].Tag = true
	decls := append(append(append(append([]Decl{}, maps...), scalars...), ifaces...), generics...)
	decls = append(decls, all...)
	// source order is irrelevant to gengo (it sorts names) but not to go/types: shuffle
	for i := len(decls) - 1; i > 0; i-- {
		j := r.Intn(i + 1)
		decls[i], decls[j] = decls[j], decls[i]
	}
	in.Decls = decls
	return in
}

// shadowInput: slice/map fields whose element type lives in a sibling package with a (possibly) colliding name.
func shadowInput(r *core.RNG, seed uint64) Input {
	in := randomInput(r, seed)
	in.ShadowPkg = core.Pick(r, shadowNames)
	for i := range in.Decls {
		d := &in.Decls[i]
		if d.Kind == DStruct && len(d.TParams) == 0 && in.enabled(d) {
			if r.Bool() {
				d.Fields = append(d.Fields, fsl("Sh", in.ShadowPkg+".Item"))
			} else {
				d.Fields = append(d.Fields, fm("Sh", "string", in.ShadowPkg+".Item"))
			}
			break
		}
	}
	return in
}

// outsideInput: one field outside the property's domain (observed, never flagged).
func outsideInput(r *core.RNG, seed uint64) Input {
	in := randomInput(r, seed)
	var structs []string
	for _, d := range in.Decls {
		if d.Kind == DStruct && len(d.TParams) == 0 {
			structs = append(structs, d.Name)
		}
	}
	sort.Strings(structs)
	for i := range in.Decls {
		d := &in.Decls[i]
		if d.Kind == DStruct && len(d.TParams) == 0 && in.enabled(d) {
			// only types that do not contain d by value: take a struct that sorts lower in the layering = any leaf-only one
			var leafOnly []string
			for _, e := range in.Decls {
				if e.Kind == DStruct && len(e.TParams) == 0 && e.Name != d.Name {
					ok := true
					for _, f := range e.Fields {
						if f.K == KNamed {
							ok = false
						}
					}
					if ok {
						leafOnly = append(leafOnly, e.Name)
					}
				}
			}
			switch k := r.Intn(4); {
			case k == 0 && len(leafOnly) > 0:
				d.Fields = append(d.Fields, fp("Out", KPtr, core.Pick(r, leafOnly)))
			case k == 1 && len(leafOnly) > 0:
				d.Fields = append(d.Fields, fp("Out", KSliceOf, core.Pick(r, leafOnly)))
			case k == 2:
				d.Fields = append(d.Fields, fp("Out", KSliceSl, core.Pick(r, basics)))
			default:
				d.Fields = append(d.Fields, fk("Out", KForeignSt))
			}
			break
		}
	}
	return in
}

// smallScope: one root struct, one field of every kind, dependency tagged/untagged, package tag on/off, the
// interfaces tag on the root or on the dependency; then every ordered pair of two field kinds.
func smallScope() []Input {
	var out []Input
	aux := func(tag, ifc bool) []Decl {
		return []Decl{
			{Name: "Dep", Kind: DStruct, Tag: tag, Ifaces: ifc, Fields: []Field{fsl("X", "int"), fm("Y", "string", "bool")}},
			{Name: "M", Kind: DMap, Tag: tag, Ifaces: ifc, Key: "string", Elem: "int"},
			{Name: "N", Kind: DScalar, Tag: tag, Ifaces: ifc, Base: "int"},
			{Name: "NI", Kind: DIface},
			{Name: "Box", Kind: DStruct, Tag: tag, Ifaces: ifc, TParams: []string{"T"}, Fields: []Field{fp("V", KTParam, "T"), fsl("S", "string")}},
		}
	}
	kinds := []Field{fb("F", "int"), fsl("F", "string"), fm("F", "int", "string"), fn("F", "Dep"), fn("F", "M"), fn("F", "N"),
		fn("F", "NI"), fn("F", "Box", "int"), fk("F", KError), fk("F", KAny), fk("F", KIface), fk("F", KForeign)}
	seed := uint64(100)
	for _, f := range kinds {
		for _, tag := range []bool{false, true} {
			for _, pt := range []bool{false, true} {
				for _, ifc := range []bool{false, true} {
					if ifc && (pt || !tag) {
						continue
					}
					seed++
					ds := append(aux(tag, ifc), Decl{Name: "Root", Kind: DStruct, Tag: true, Ifaces: ifc, Fields: []Field{f}})
					out = append(out, Input{PkgTag: pt, Decls: ds, Seed: seed})
				}
			}
		}
	}
	for i, f := range kinds {
		for j, g := range kinds {
			if i == j {
				continue
			}
			seed++
			f2, g2 := f, g
			f2.Name, g2.Name = "F", "G"
			ds := append(aux(false, false), Decl{Name: "Root", Kind: DStruct, Tag: true, Fields: []Field{f2, g2}})
			out = append(out, Input{Decls: ds, Seed: seed})
		}
	}
	return out
}

// ---- trees of by-value struct dependencies ----
//
// The generator discovers same-package dependencies while it renders a struct and generates them afterwards, depth
// first.  Whether EVERY dependency gets its methods depends on the SHAPE of the graph and on field order: a struct with
// two or three by-value struct fields, an earlier one of which has (or leads to a struct that has) two or three such
// fields of its own, every type but the root untagged and reachable by exactly one route (a tree), so that a dependency
// that is skipped is generated by nobody else and `in.F.DeepCopyInto undefined` breaks the build.  The random layered
// graphs almost never have that shape (one or two structs per level, mostly tagged).

type tshape struct{ kids []tshape }

var (
	tA  = tshape{}                           // a leaf struct: a slice and a map
	tX2 = tshape{kids: []tshape{tA, tA}}     // fan-out 2
	tX3 = tshape{kids: []tshape{tA, tA, tA}} // fan-out 3
	tC  = tshape{kids: []tshape{tX2}}        // a chain link in front of a fan-out of 2
)

func (t tshape) size() int {
	n := 1
	for _, k := range t.kids {
		n += k.size()
	}
	return n
}

// treeInput: the package of a shape.  Only the root is tagged (tagPct: chance that another node is tagged as well);
// names are random so that the order of names is unrelated to the order of dependencies; the by-value fields keep the
// order of the shape, leaf fields go to random positions in between.
func treeInput(r *core.RNG, root tshape, seed uint64, tagPct int) Input {
	b := &builder{r: r, used: map[string]bool{}}
	var decls []Decl
	var build func(t tshape, isRoot bool) string
	build = func(t tshape, isRoot bool) string {
		d := Decl{Name: b.name("T"), Kind: DStruct, Tag: isRoot || r.Chance(tagPct)}
		var fields []Field
		for i, k := range t.kids {
			fields = append(fields, fn(fmt.Sprintf("K%d", i), build(k, false)))
		}
		var extra []Field
		if len(t.kids) == 0 {
			extra = append(extra, fsl("S", core.Pick(r, basics)), fm("M", core.Pick(r, mapKeys), core.Pick(r, basics)))
		} else if r.Bool() {
			extra = append(extra, b.leaf("L"))
		}
		for _, e := range extra {
			at := r.Intn(len(fields) + 1)
			fields = append(fields[:at], append([]Field{e}, fields[at:]...)...)
		}
		d.Fields = fields
		decls = append(decls, d)
		return d.Name
	}
	build(root, true)
	for i := len(decls) - 1; i > 0; i-- { // source order is irrelevant to gengo, not to go/types
		j := r.Intn(i + 1)
		decls[i], decls[j] = decls[j], decls[i]
	}
	return Input{Seed: seed, Decls: decls}
}

func randomTree(r *core.RNG, depth int, budget *int) tshape {
	*budget--
	if depth == 0 {
		return tA
	}
	var t tshape
	n := 2 + r.Intn(2)
	if r.Chance(15) {
		n = 1
	}
	for i := 0; i < n && *budget > 0; i++ {
		if r.Chance(35) {
			*budget--
			t.kids = append(t.kids, tA)
		} else {
			t.kids = append(t.kids, randomTree(r, depth-1, budget))
		}
	}
	return t
}

func perms(ts []tshape) [][]tshape {
	if len(ts) <= 1 {
		return [][]tshape{append([]tshape(nil), ts...)}
	}
	var out [][]tshape
	for i := range ts {
		rest := append(append([]tshape(nil), ts[:i]...), ts[i+1:]...)
		for _, p := range perms(rest) {
			out = append(out, append([]tshape{ts[i]}, p...))
		}
	}
	return out
}

func shapeKey(t tshape) string {
	s := "("
	for _, k := range t.kids {
		s += shapeKey(k)
	}
	return s + ")"
}

// treeShapes: quick = the small shapes in EVERY order of the root's fields; thorough = every root of fan-out 2 over six
// child shapes and of fan-out 3 over four, in every order (ordered tuples), plus depth 3.
func treeShapes(tier string) []tshape {
	var out []tshape
	seen := map[string]bool{}
	add := func(kids ...tshape) {
		for _, p := range perms(kids) {
			t := tshape{kids: p}
			if k := shapeKey(t); !seen[k] {
				seen[k] = true
				out = append(out, t)
			}
		}
	}
	deepL := tshape{kids: []tshape{tX2, tA}} // fan-out 2 whose FIRST child fans out again
	deepR := tshape{kids: []tshape{tA, tX2}}
	add(tX2, tA)
	add(tX2, tX2)
	add(tC, tA)
	add(tX3, tA, tA)
	add(tX2, tA, tA)
	add(deepL, tA)
	add(deepR, tA)
	if tier == "thorough" {
		six := []tshape{tA, tX2, tX3, tC, deepL, deepR}
		for _, a := range six {
			for _, b := range six {
				add(a, b)
			}
		}
		four := []tshape{tA, tX2, tX3, tC}
		for _, a := range four {
			for _, b := range four {
				for _, c := range four {
					add(a, b, c)
				}
			}
		}
	}
	return out
}

// ---- generic structs instantiated with same-package defined types ----
//
// Added after seeded change C17-g (methods of a generic struct rendered from the INSTANCE the generator met first instead
// of from its origin).  The methods of G[T] must be the same whatever instantiation leads to G: what is generated depends
// on (1) HOW G is reached - on demand through a field of an instantiation (G untagged, or tagged but sorting after its
// user) or from its own tag before its user - and (2) WHICH instantiation is met first in field order, and what kind of
// type its argument is.  Argument kinds: a basic type, a defined map, a defined scalar, a defined struct of scalars, a
// defined struct holding a slice and a map (all same-package).
var argKinds = []string{"int", "map", "scalar", "pstruct", "cstruct"}

// argDecl: the declaration a type argument of that kind needs ("" for basic) and the argument's name
func argDecl(kind, suffix string, tagged bool) (string, *Decl) {
	switch kind {
	case "map":
		return "Labels" + suffix, &Decl{Name: "Labels" + suffix, Kind: DMap, Tag: tagged, Key: "string", Elem: "string"}
	case "scalar":
		return "Level" + suffix, &Decl{Name: "Level" + suffix, Kind: DScalar, Tag: tagged, Base: "int32"}
	case "pstruct":
		return "Point" + suffix, &Decl{Name: "Point" + suffix, Kind: DStruct, Tag: tagged, Fields: []Field{fb("X", "int"), fb("Y", "float64")}}
	case "cstruct":
		return "Dep" + suffix, &Decl{Name: "Dep" + suffix, Kind: DStruct, Tag: tagged, Fields: []Field{fsl("S", "int"), fm("M", "string", "bool"), fb("N", "string")}}
	}
	return "string", nil
}

// genericMode: how the generic struct is reached.  0 = untagged (on demand only), 1 = tagged, sorts AFTER its user (on
// demand first, its own turn later), 2 = tagged, sorts BEFORE its user (from its origin first)
func genericName(mode, i int) string {
	switch mode {
	case 2:
		return fmt.Sprintf("APage%d", i)
	}
	return fmt.Sprintf("Page%d", i)
}

// genericArgsInput: one user struct ("Root", or "Mid" below a tagged Root when nested) whose fields are instantiations of the
// generic structs gs[i] = Page_i[T]{Item T; Total int} with the argument kinds of insts[i], in that field order.
func genericArgsInput(r *core.RNG, mode int, insts [][]string, nested bool, argTagged bool, seed uint64) Input {
	var decls []Decl
	seen := map[string]bool{}
	user := Decl{Name: "Root", Kind: DStruct, Tag: true}
	if nested {
		user = Decl{Name: "Mid", Kind: DStruct}
	}
	user.Fields = append(user.Fields, fb("ID", "string"))
	for i, kinds := range insts {
		g := Decl{Name: genericName(mode, i), Kind: DStruct, Tag: mode != 0, TParams: []string{"T"},
			Fields: []Field{fp("Item", KTParam, "T"), fb("Total", "int")}}
		if r.Chance(30) {
			g.Fields = append(g.Fields, fsl("Rows", "string"))
		}
		if r.Chance(30) { // the type-parameter field is not the first field
			g.Fields[0], g.Fields[1] = g.Fields[1], g.Fields[0]
		}
		decls = append(decls, g)
		for j, k := range kinds {
			name, d := argDecl(k, "", argTagged)
			if d != nil && !seen[name] {
				seen[name] = true
				decls = append(decls, *d)
			}
			user.Fields = append(user.Fields, fn(fmt.Sprintf("F%d_%d", i, j), g.Name, name))
		}
	}
	user.Fields = append(user.Fields, fsl("Tags", "string"))
	decls = append(decls, user)
	if nested {
		decls = append(decls, Decl{Name: "Root", Kind: DStruct, Tag: true, Fields: []Field{fn("Mid", "Mid"), fm("M", "string", "int")}})
	}
	for i := len(decls) - 1; i > 0; i-- { // source order is irrelevant to gengo, not to go/types
		j := r.Intn(i + 1)
		decls[i], decls[j] = decls[j], decls[i]
	}
	return Input{Seed: seed, Decls: decls}
}

// genericArgsInputs: quick = per mode, the four non-basic argument kinds each FIRST (before an int instantiation of the same
// generic struct) in one package and each SECOND in another (6 packages), the single instantiation with a defined type
// and no other (mode 0), two generic structs with two type parameters, and random ones (nested below an untagged struct,
// tagged argument types, three instantiations); thorough = every ordered pair of argument kinds x every mode as a
// package of its own, single instantiations, and more random ones.
func genericArgsInputs(r *core.RNG, tier string) []Input {
	var out []Input
	seed := func() uint64 { return r.Uint64() % 1000000 }
	locals := argKinds[1:]
	for mode := 0; mode < 3; mode++ {
		var first, second [][]string
		for _, k := range locals {
			first = append(first, []string{k, "int"})
			second = append(second, []string{"int", k})
		}
		out = append(out, genericArgsInput(r.Fork(), mode, first, false, false, seed()), genericArgsInput(r.Fork(), mode, second, false, false, seed()))
	}
	var single [][]string
	for _, k := range locals {
		single = append(single, []string{k})
	}
	out = append(out, genericArgsInput(r.Fork(), 0, single, false, false, seed()))
	// two type parameters: Pair[K, V]{Key K; Val V}; the defined type as first / second argument
	pair := Decl{Name: "Pair", Kind: DStruct, TParams: []string{"K", "V"}, Fields: []Field{fp("Key", KTParam, "K"), fp("Val", KTParam, "V"), fm("M", "string", "int")}}
	_, lab := argDecl("map", "", false)
	_, lev := argDecl("scalar", "", false)
	out = append(out, Input{Seed: seed(), Decls: []Decl{pair, *lab, *lev,
		st("Root", true, fn("A", "Pair", "string", "Labels"), fn("B", "Pair", "int", "string"), fn("C", "Pair", "Level", "int"))}})
	nr := 4
	if tier == "thorough" {
		nr = 40
		for mode := 0; mode < 3; mode++ {
			for _, a := range argKinds {
				for _, b := range argKinds {
					out = append(out, genericArgsInput(r.Fork(), mode, [][]string{{a, b}}, false, false, seed()))
				}
			}
			if mode > 0 {
				out = append(out, genericArgsInput(r.Fork(), mode, single, false, false, seed()))
			}
		}
	}
	for i := 0; i < nr; i++ {
		var insts [][]string
		for g, ng := 0, 1+r.Intn(2); g < ng; g++ {
			var kinds []string
			for k, nk := 0, 1+r.Intn(3); k < nk; k++ {
				kinds = append(kinds, core.Pick(r, argKinds))
			}
			insts = append(insts, kinds)
		}
		out = append(out, genericArgsInput(r.Fork(), r.Intn(3), insts, r.Chance(50), r.Chance(30), seed()))
	}
	return out
}

func (prop) Generate(r *core.RNG, tier string) []json.RawMessage {
	var out []json.RawMessage
	for _, c := range corner() {
		out = append(out, enc(c))
	}
	for _, c := range ifaceOrders() {
		out = append(out, enc(c))
	}
	// field names of every legal identifier shape; OutputFileBaseName x three runs (names.go)
	for _, c := range fieldNameInputs(r.Fork(), tier) {
		out = append(out, enc(c))
	}
	for _, c := range baseNameInputs(r.Fork(), tier) {
		out = append(out, enc(c))
	}
	for _, c := range aliasInputs(r.Fork(), tier) {
		out = append(out, enc(c))
	}
	// a third of the generic / tree / random packages below is renamed with names of mixed shapes, a fifth of the random
	// stream is generated under another output file base name, a quarter of it has 40% of its fields declared through
	// aliases (own generator: the stream itself stays as it was)
	rn := r.Fork()
	vary := func(in Input, names, base bool) Input {
		if names && rn.Chance(33) {
			in = renameFields(rn.Fork(), in, pickMixed)
		}
		if base && rn.Chance(20) {
			in.Base = core.Pick(rn, baseNames)
		}
		if base && in.ShadowPkg == "" && rn.Chance(25) {
			in = aliasify(rn.Fork(), in, 40)
		}
		return in
	}
	for _, c := range genericArgsInputs(r.Fork(), tier) {
		out = append(out, enc(vary(c, true, false)))
	}
	// trees of by-value struct dependencies, only the root tagged: the fixed shapes in every field order, then random
	// trees of fan-out 2-3 and depth 2-3 (a fifth of them with further tags)
	for _, t := range treeShapes(tier) {
		out = append(out, enc(treeInput(r.Fork(), t, r.Uint64()%1000000, 0)))
	}
	nt := 8
	if tier == "thorough" {
		nt = 80
	}
	for i := 0; i < nt; i++ {
		budget := 14
		t := randomTree(r, 2+r.Intn(2), &budget)
		tagPct := 0
		if i%5 == 4 {
			tagPct = 25
		}
		out = append(out, enc(vary(treeInput(r.Fork(), t, r.Uint64()%1000000, tagPct), true, false)))
	}
	n := 22
	if tier == "thorough" {
		n = 260
	}
	for i := 0; i < n; i++ {
		seed := r.Uint64() % 1000000
		switch k := r.Intn(100); {
		case k < 10:
			out = append(out, enc(vary(outsideInput(r.Fork(), seed), true, true)))
		case k < 18:
			out = append(out, enc(vary(shadowInput(r.Fork(), seed), true, true)))
		default:
			out = append(out, enc(vary(randomInput(r.Fork(), seed), true, true)))
		}
	}
	if tier == "thorough" {
		for _, c := range smallScope() {
			out = append(out, enc(c))
		}
	}
	return out
}

// Shrink: strictly smaller inputs.
func (prop) Shrink(raw json.RawMessage) []json.RawMessage {
	var in Input
	if json.Unmarshal(raw, &in) != nil {
		return nil
	}
	var out []json.RawMessage
	clone := func() Input {
		var c Input
		b, _ := json.Marshal(in)
		_ = json.Unmarshal(b, &c)
		return c
	}
	referenced := func(c *Input, name string) bool {
		for _, d := range c.Decls {
			for _, f := range d.Fields {
				if (f.K == KNamed || f.K == KPtr || f.K == KSliceOf || f.K == KAlias) && f.A == name {
					return true
				}
				for _, a := range f.Args { // a type argument
					if a == name {
						return true
					}
				}
			}
			if d.Of != nil && (d.Of.A == name || d.Of.B == name) {
				return true
			}
			if d.Of != nil {
				for _, a := range d.Of.Args {
					if a == name {
						return true
					}
				}
			}
		}
		return false
	}
	// a field declared through an alias: declared with the type the alias denotes
	for i := range in.Decls {
		for j, f := range in.Decls[i].Fields {
			if f.K == KAlias {
				if r := in.resolve(f); r.K != KAlias {
					c := clone()
					c.Decls[i].Fields[j] = r
					out = append(out, enc(c))
				}
			}
		}
	}
	// drop a declaration nobody refers to
	for i := range in.Decls {
		if !referenced(&in, in.Decls[i].Name) && len(in.Decls) > 1 {
			c := clone()
			c.Decls = append(c.Decls[:i], c.Decls[i+1:]...)
			out = append(out, enc(c))
		}
	}
	// drop a field
	for i := range in.Decls {
		for j := range in.Decls[i].Fields {
			if len(in.Decls[i].Fields) > 1 {
				c := clone()
				c.Decls[i].Fields = append(c.Decls[i].Fields[:j], c.Decls[i].Fields[j+1:]...)
				out = append(out, enc(c))
			}
		}
	}
	// simplify a field to a basic one
	for i := range in.Decls {
		for j, f := range in.Decls[i].Fields {
			if f.K != KBasic && f.K != KTParam {
				c := clone()
				c.Decls[i].Fields[j] = fb(f.Name, "int")
				out = append(out, enc(c))
			}
		}
	}
	// a plain name for a field (F<j> style); the conventional output file base name
	for i := range in.Decls {
		for j, f := range in.Decls[i].Fields {
			if rePlainName.MatchString(f.Name) {
				continue
			}
			for n := 0; ; n++ {
				cand := fmt.Sprintf("N%d", n)
				taken := false
				for _, g := range in.Decls[i].Fields {
					if g.Name == cand {
						taken = true
					}
				}
				if !taken {
					c := clone()
					c.Decls[i].Fields[j].Name = cand
					out = append(out, enc(c))
					break
				}
			}
		}
	}
	if in.Base != "" {
		c := clone()
		c.Base = ""
		out = append(out, enc(c))
	}
	// clear flags
	if in.PkgTag {
		c := clone()
		c.PkgTag = false
		for i := range c.Decls {
			if c.Decls[i].Kind != DIface {
				c.Decls[i].Tag = true
			}
		}
		out = append(out, enc(c))
	}
	for i, d := range in.Decls {
		if d.Ifaces {
			c := clone()
			c.Decls[i].Ifaces = false
			c.Decls[i].Tag = true
			out = append(out, enc(c))
		}
		if d.Strs {
			c := clone()
			c.Decls[i].Strs = false
			out = append(out, enc(c))
		}
		if d.Tag && d.Kind != DStruct {
			c := clone()
			c.Decls[i].Tag = false
			out = append(out, enc(c))
		}
	}
	return out
}
