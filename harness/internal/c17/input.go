// Package c17: the deepcopy generator (devpkg/deepcopygen + helper/copy_fields.go).
//
// One input = one synthetic package (a type graph over the property's domain).  The real generator is run
// three times through gengo.NewContext(...).Execute in supervised child processes, the generated files are
// compared byte for byte, parsed and abstracted to the statement IR of Model/DeepCopy.v, the package is
// compiled together with a reflective test program, and the program's verdicts (DeepCopy(nil) == nil, deep
// equality, original unchanged after mutating every slice/map of the copy) are reported.
package c17

import (
	"fmt"
	"sort"
	"strings"
)

// Field kinds (what go/types presents for the field's type).
const (
	KBasic   = "basic"   // A = int | string | ...
	KSlice   = "slice"   // []A
	KMap     = "map"     // map[A]B
	KNamed   = "named"   // same-package named type A (struct, map, scalar, iface), Args = type arguments
	KError   = "error"   // the predeclared error type (a *types.Named without package)
	KAny     = "any"     // any (an alias of interface{})
	KIface   = "iface"   // interface{} literal
	KTParam  = "tparam"  // a bare type parameter A of the enclosing generic struct
	KForeign = "foreign" // a defined scalar type of another package: time.Duration
	KAlias   = "alias"   // a type declared as an alias: A = a same-package alias declaration, or ext.<Name> (sibling package ext)
	// outside the property's domain (separate stream; only "does not crash" is observed, never flagged)
	KPtr       = "ptr"       // *A, A a same-package struct
	KSliceOf   = "sliceof"   // []A, A a same-package named type
	KSliceSl   = "slicesl"   // [][]A
	KForeignSt = "foreignst" // time.Time
)

type Field struct {
	Name string   `json:"name"`
	K    string   `json:"k"`
	A    string   `json:"a,omitempty"`
	B    string   `json:"b,omitempty"`
	Args []string `json:"args,omitempty"`
}

// Decl kinds.
const (
	DStruct = "struct"
	DMap    = "map"
	DScalar = "scalar"
	DIface  = "iface"
	DAlias  = "alias" // type Name = <Of>: no type of its own (identical to the type it denotes); never tagged
)

type Decl struct {
	Name    string   `json:"name"`
	Kind    string   `json:"kind"`
	Tag     bool     `json:"tag,omitempty"`     // +gengo:deepcopy on the type
	Ifaces  bool     `json:"ifaces,omitempty"`  // +gengo:deepcopy:interfaces=Object on the type
	TParams []string `json:"tparams,omitempty"` // generic struct: names of its type parameters
	Fields  []Field  `json:"fields,omitempty"`  // struct
	Key     string   `json:"key,omitempty"`     // map
	Elem    string   `json:"elem,omitempty"`    // map
	Base    string   `json:"base,omitempty"`    // scalar
	Strs    bool     `json:"strs,omitempty"`    // a hand-written String() method on the type (method scan sees it first)
	Of      *Field   `json:"of,omitempty"`      // alias: the type it denotes (the field's name is not used)
}

// extAliases: the alias declarations of the sibling package example.com/c17m/ext (written when a field refers to one)
var extAliases = map[string]Field{
	"ext.Items": {K: KSlice, A: "int"},
	"ext.Words": {K: KSlice, A: "string"},
	"ext.Index": {K: KMap, A: "string", B: "int"},
	"ext.Flags": {K: KMap, A: "int64", B: "bool"},
	"ext.Count": {K: KBasic, A: "int"},
	"ext.Span":  {K: KForeign},
}

const extSource = `package ext

import "time"

type (
	Items = []int
	Words = []string
	Index = map[string]int
	Flags = map[int64]bool
	Count = int
	Span  = time.Duration
)
`

// resolve: the field with its type as go/types identifies it: aliases looked through (an alias and the type it denotes are
// identical types), the name kept.  A dangling or cyclic alias resolves to itself.
func (in *Input) resolve(f Field) Field {
	for fuel := len(in.Decls) + 2; f.K == KAlias && fuel > 0; fuel-- {
		var t *Field
		if e, ok := extAliases[f.A]; ok {
			t = &e
		} else if d := in.decl(f.A); d != nil && d.Kind == DAlias && d.Of != nil {
			t = d.Of
		}
		if t == nil {
			return f
		}
		r := *t
		r.Name = f.Name
		f = r
	}
	return f
}

func (in *Input) usesExt() bool {
	for _, d := range in.Decls {
		if d.Of != nil && d.Of.K == KAlias && strings.HasPrefix(d.Of.A, "ext.") {
			return true
		}
		for _, f := range d.Fields {
			if f.K == KAlias && strings.HasPrefix(f.A, "ext.") {
				return true
			}
		}
	}
	return false
}

type Input struct {
	PkgTag bool   `json:"pkg_tag,omitempty"` // doc.go: // +gengo:deepcopy
	Decls  []Decl `json:"decls"`
	Seed   uint64 `json:"seed"` // seed of the value filler in the test program
	// ShadowPkg: name of a sibling package declaring `type Item int`; slice/map fields may use <ShadowPkg>.Item as
	// element type (A resp. B = "<ShadowPkg>.Item").  o, i, in, out, key, val collide with the template locals.
	ShadowPkg string `json:"shadow_pkg,omitempty"`
	// Base: GeneratorArgs.OutputFileBaseName of every run ("" = the conventional "zz_generated"); the generated file is
	// <Base>.deepcopy.go.  The name must not be a prefix of a hand-written file's name (gengo sweeps "<Base>.*" files it
	// did not write), i.e. not "types" or "doc".
	Base string `json:"base,omitempty"`
}

func (in *Input) base() string {
	if in.Base == "" {
		return "zz_generated"
	}
	return in.Base
}

func (in *Input) decl(name string) *Decl {
	for i := range in.Decls {
		if in.Decls[i].Name == name {
			return &in.Decls[i]
		}
	}
	return nil
}

func (in *Input) hasIfaces() bool {
	for _, d := range in.Decls {
		if d.Ifaces && d.Kind != DAlias {
			return true
		}
	}
	return false
}

func (in *Input) enabled(d *Decl) bool { return in.PkgTag || d.Tag || d.Ifaces }

// InDomain: the input lies in the domain the property quantifies over.
func (in *Input) InDomain() bool {
	for _, d := range in.Decls {
		for _, f := range d.Fields {
			switch in.resolve(f).K {
			case KPtr, KSliceOf, KSliceSl, KForeignSt, KAlias:
				return false
			}
		}
	}
	return true
}

func fieldTypeSrc(f Field, shadow string) string {
	switch f.K {
	case KBasic, KTParam, KAlias:
		return f.A
	case KSlice:
		return "[]" + f.A
	case KMap:
		return "map[" + f.A + "]" + f.B
	case KNamed:
		if len(f.Args) > 0 {
			return f.A + "[" + strings.Join(f.Args, ", ") + "]"
		}
		return f.A
	case KError:
		return "error"
	case KAny:
		return "any"
	case KIface:
		return "interface{}"
	case KForeign:
		return "time.Duration"
	case KPtr:
		return "*" + f.A
	case KSliceOf:
		return "[]" + f.A
	case KSliceSl:
		return "[][]" + f.A
	case KForeignSt:
		return "time.Time"
	}
	return "int"
}

// Source renders the package's hand-written files: name -> content.
func (in *Input) Source() map[string]string {
	files := map[string]string{}
	doc := "// Package p is a generated subject of the C17 check.\n"
	if in.PkgTag {
		doc += "// +gengo:deepcopy\n"
	}
	files["doc.go"] = doc + "package p\n"

	var b strings.Builder
	b.WriteString("package p\n\n")
	usesTime := false
	for _, d := range in.Decls {
		for _, f := range d.Fields {
			if f.K == KForeign || f.K == KForeignSt {
				usesTime = true
			}
		}
		if d.Of != nil && (d.Of.K == KForeign || d.Of.K == KForeignSt) {
			usesTime = true
		}
	}
	usesShadow := false
	for _, d := range in.Decls {
		for _, f := range d.Fields {
			if (f.K == KSlice || f.K == KMap) && (strings.Contains(f.A, ".") || strings.Contains(f.B, ".")) {
				usesShadow = true
			}
		}
	}
	if usesTime {
		b.WriteString("import \"time\"\n\n")
	}
	if usesShadow && in.ShadowPkg != "" {
		fmt.Fprintf(&b, "import \"example.com/c17m/%s\"\n\n", in.ShadowPkg)
	}
	if in.usesExt() {
		b.WriteString("import \"example.com/c17m/ext\"\n\n")
	}
	b.WriteString("var Keep = 0\n\n")
	if in.hasIfaces() {
		b.WriteString("type Object interface {\n\tDeepCopyObject() Object\n}\n\n")
	}
	for _, d := range in.Decls {
		if d.Tag && d.Kind != DAlias {
			b.WriteString("// +gengo:deepcopy\n")
		}
		if d.Ifaces && d.Kind != DAlias {
			b.WriteString("// +gengo:deepcopy:interfaces=Object\n")
		}
		switch d.Kind {
		case DStruct:
			tp := ""
			if len(d.TParams) > 0 {
				var ps []string
				for _, p := range d.TParams {
					ps = append(ps, p+" any")
				}
				tp = "[" + strings.Join(ps, ", ") + "]"
			}
			fmt.Fprintf(&b, "type %s%s struct {\n", d.Name, tp)
			for _, f := range d.Fields {
				fmt.Fprintf(&b, "\t%s %s\n", f.Name, fieldTypeSrc(f, in.ShadowPkg))
			}
			b.WriteString("}\n\n")
		case DMap:
			fmt.Fprintf(&b, "type %s map[%s]%s\n\n", d.Name, d.Key, d.Elem)
		case DScalar:
			fmt.Fprintf(&b, "type %s %s\n\n", d.Name, d.Base)
		case DIface:
			fmt.Fprintf(&b, "type %s interface {\n\tString() string\n}\n\n", d.Name)
		case DAlias:
			of := Field{K: KBasic, A: "int"}
			if d.Of != nil {
				of = *d.Of
			}
			fmt.Fprintf(&b, "type %s = %s\n\n", d.Name, fieldTypeSrc(of, in.ShadowPkg))
		}
		if d.Strs && d.Kind != DIface && d.Kind != DAlias && len(d.TParams) == 0 {
			fmt.Fprintf(&b, "func (%s) String() string { return %q }\n\n", d.Name, d.Name)
		}
	}
	files["types.go"] = b.String()
	return files
}

// sortedNames: the order in which gengo visits the package's types.
func (in *Input) sortedNames() []string {
	var ns []string
	for _, d := range in.Decls {
		if d.Kind == DAlias {
			continue // deepcopy is no AliasGenerator: doGenerate passes alias type names by
		}
		ns = append(ns, d.Name)
	}
	if in.hasIfaces() {
		ns = append(ns, "Object")
	}
	sort.Strings(ns)
	return ns
}
