package c17

import (
	"bytes"
	"context"
	"encoding/json"
	"fmt"
	"os"
	"os/exec"
	"path/filepath"
	"regexp"
	"sort"
	"strings"
	"time"

	"verifharness/internal/core"
)

type prop struct{}

func init() { core.Register(prop{}) }

func (prop) ID() string        { return "C17" }
func (prop) CoqModule() string { return "Gengo.Corr.C17" }
func (prop) Parallel() int     { return 8 }

// ---- observation ----

type GenRun struct {
	Status  string   `json:"status"` // file | nofile | crash | error | timeout | noparse
	Detail  string   `json:"detail,omitempty"`
	Methods []Method `json:"methods,omitempty"`
	Imports []string `json:"imports,omitempty"`
	src     []byte
}

type Verdict struct {
	Type          string `json:"type"`
	HasCopy       bool   `json:"has_copy"`
	HasInto       bool   `json:"has_into"`
	HasObject     bool   `json:"has_object"`
	NilNil        bool   `json:"nil_nil"`
	Equal         bool   `json:"equal"`
	Unchanged     bool   `json:"unchanged"`
	IntoEqual     bool   `json:"into_equal"`
	IntoUnchanged bool   `json:"into_unchanged"`
	TPUnchanged   bool   `json:"tp_unchanged"` // the same after mutating the containers reached through bare type-parameter fields
	ObjectOK      bool   `json:"object_ok"`
	Containers    int    `json:"containers"`
	Depth         int    `json:"depth"`
	Panic         string `json:"panic,omitempty"`
	Detail        string `json:"detail,omitempty"`
}

type Observed struct {
	Runs       []GenRun  `json:"runs"`
	SameRerun  bool      `json:"same_rerun"` // the generated file is byte-identical after run 1, 2 and 3
	Compiles   bool      `json:"compiles"`
	BuildError string    `json:"build_error,omitempty"`
	Roots      []Verdict `json:"roots,omitempty"`
	File       string    `json:"file,omitempty"` // generated file of run 1 (kept for failing cases only)
}

func runCmd(dir string, timeout time.Duration, name string, args ...string) (rc int, out string, timedOut bool) {
	ctx, cancel := context.WithTimeout(context.Background(), timeout)
	defer cancel()
	cmd := exec.CommandContext(ctx, name, args...)
	cmd.Dir = dir
	cmd.WaitDelay = 2 * time.Second
	var b bytes.Buffer
	cmd.Stdout, cmd.Stderr = &b, &b
	err := cmd.Run()
	if ctx.Err() != nil {
		return -1, b.String(), true
	}
	if err != nil {
		if ee, ok := err.(*exec.ExitError); ok {
			return ee.ExitCode(), b.String(), false
		}
		return -2, b.String() + err.Error(), false
	}
	return 0, b.String(), false
}

var rePanicLine = regexp.MustCompile(`(?m)^(panic: .*|fatal error: .*|\[signal .*)$`)

func genOnce(self, mod, base string) GenRun {
	rc, out, to := runCmd(mod, 90*time.Second, self, "c17-gen", mod, "./p", base)
	gf := filepath.Join(mod, "p", base+".deepcopy.go")
	switch {
	case to:
		return GenRun{Status: "timeout"}
	case rc == 3:
		return GenRun{Status: "error", Detail: lastLines(out, 3)}
	case rc != 0:
		d := strings.Join(rePanicLine.FindAllString(out, 3), " | ")
		if d == "" {
			d = lastLines(out, 3)
		}
		return GenRun{Status: "crash", Detail: d}
	}
	src, err := os.ReadFile(gf)
	if err != nil {
		return GenRun{Status: "nofile"}
	}
	ms, imps, err := parseGenerated(src)
	if err != nil {
		return GenRun{Status: "noparse", Detail: err.Error(), src: src}
	}
	return GenRun{Status: "file", Methods: ms, Imports: imps, src: src}
}

func lastLines(s string, n int) string {
	ls := strings.Split(strings.TrimSpace(s), "\n")
	if len(ls) > n {
		ls = ls[len(ls)-n:]
	}
	return strings.Join(ls, " | ")
}

func firstLines(s string, n int) string {
	ls := strings.Split(strings.TrimSpace(s), "\n")
	var keep []string
	for _, l := range ls {
		if strings.HasPrefix(l, "#") || strings.TrimSpace(l) == "" {
			continue
		}
		keep = append(keep, l)
		if len(keep) == n {
			break
		}
	}
	return strings.Join(keep, " | ")
}

// rootsOf: the types whose methods the test program exercises = the types enabled for the generator.
func rootsOf(in *Input) (exprs []string, decls []*Decl) {
	for i := range in.Decls {
		d := &in.Decls[i]
		if !in.enabled(d) {
			continue
		}
		switch d.Kind {
		case DStruct:
			if len(d.TParams) > 0 {
				args := make([]string, len(d.TParams))
				for k := range args {
					args[k] = []string{"int", "string"}[k%2]
				}
				exprs = append(exprs, fmt.Sprintf("(*p.%s[%s])(nil)", d.Name, strings.Join(args, ", ")))
			} else {
				exprs = append(exprs, fmt.Sprintf("(*p.%s)(nil)", d.Name))
			}
		case DScalar:
			exprs = append(exprs, fmt.Sprintf("(*p.%s)(nil)", d.Name))
		case DMap:
			exprs = append(exprs, fmt.Sprintf("p.%s(nil)", d.Name))
		default:
			continue
		}
		decls = append(decls, d)
	}
	return
}

// tparamFields: generic struct -> fields of bare type-parameter type (see testProgram)
func (in *Input) tparamFields() map[string][]string {
	out := map[string][]string{}
	for _, d := range in.Decls {
		if d.Kind != DStruct || len(d.TParams) == 0 {
			continue
		}
		for _, f := range d.Fields {
			if f.K == KTParam {
				out[d.Name] = append(out[d.Name], f.Name)
			}
		}
	}
	return out
}

func writeModule(in *Input, mod string) error {
	if err := os.MkdirAll(filepath.Join(mod, "p"), 0o755); err != nil {
		return err
	}
	if err := os.WriteFile(filepath.Join(mod, "go.mod"), []byte("module example.com/c17m\n\ngo 1.23\n"), 0o644); err != nil {
		return err
	}
	for name, content := range in.Source() {
		if err := os.WriteFile(filepath.Join(mod, "p", name), []byte(content), 0o644); err != nil {
			return err
		}
	}
	if in.usesExt() {
		d := filepath.Join(mod, "ext")
		if err := os.MkdirAll(d, 0o755); err != nil {
			return err
		}
		if err := os.WriteFile(filepath.Join(d, "ext.go"), []byte(extSource), 0o644); err != nil {
			return err
		}
	}
	if in.ShadowPkg != "" {
		d := filepath.Join(mod, in.ShadowPkg)
		if err := os.MkdirAll(d, 0o755); err != nil {
			return err
		}
		src := "package " + in.ShadowPkg + "\n\ntype Item int\n"
		if err := os.WriteFile(filepath.Join(d, "item.go"), []byte(src), 0o644); err != nil {
			return err
		}
	}
	return nil
}

func (prop) Run(raw json.RawMessage, scratch string) core.Result {
	var in Input
	var res core.Result
	if err := json.Unmarshal(raw, &in); err != nil {
		res.Notes = append(res.Notes, "bad input: "+err.Error())
		return res
	}
	self, _ := os.Executable()
	mod := filepath.Join(scratch, "m")
	if err := writeModule(&in, mod); err != nil {
		res.Notes = append(res.Notes, "cannot write module: "+err.Error())
		return res
	}
	var obs Observed
	// --- the real generator, three times ---
	first := ""
	for k := 0; k < 3; k++ {
		g := genOnce(self, mod, in.base())
		in.aliasSpelling(g.Methods)
		obs.Runs = append(obs.Runs, g)
		// the package must compile after EVERY run: after the first one, and after a later one that left something else
		// behind (other bytes, or no file at all) than the run before it
		changed := k == 0 || g.Status != obs.Runs[k-1].Status || !bytes.Equal(g.src, obs.Runs[k-1].src)
		if first == "" && changed && (g.Status == "file" || k > 0) {
			if rc, out, to := runCmd(mod, 240*time.Second, "go", "build", "./p"); rc != 0 || to {
				first = fmt.Sprintf("after run %d: %s", k+1, firstLines(out, 4))
			}
		}
		if g.Status == "crash" || g.Status == "timeout" || g.Status == "error" {
			for len(obs.Runs) < 3 {
				obs.Runs = append(obs.Runs, g)
			}
			break
		}
	}
	obs.SameRerun = true
	for k := 1; k < 3; k++ {
		if obs.Runs[k].Status != obs.Runs[0].Status || !bytes.Equal(obs.Runs[k].src, obs.Runs[0].src) {
			obs.SameRerun = false
		}
	}
	// --- compile and run ---
	rootExprs, rootDecls := rootsOf(&in)
	tdir := filepath.Join(mod, "cmd", "t")
	_ = os.MkdirAll(tdir, 0o755)
	_ = os.WriteFile(filepath.Join(tdir, "main.go"), []byte(testProgram(rootExprs, in.Seed, 6, in.tparamFields())), 0o644)
	rc, out, to := runCmd(mod, 240*time.Second, "go", "build", "-o", filepath.Join(mod, "t.exe"), "./cmd/t")
	obs.Compiles = rc == 0 && !to && first == ""
	if !obs.Compiles {
		obs.BuildError = firstLines(out, 4)
		if to {
			obs.BuildError = "go build timed out"
		}
		if first != "" {
			obs.BuildError = first
		}
	} else {
		rc, out, to := runCmd(mod, 60*time.Second, filepath.Join(mod, "t.exe"))
		if rc != 0 || to {
			obs.BuildError = "test program failed: " + lastLines(out, 3)
		} else if err := json.Unmarshal([]byte(out), &obs.Roots); err != nil {
			obs.BuildError = "test program output: " + err.Error()
		}
	}

	inDomain := in.InDomain()
	class := in.knownClass()
	var viol []string
	tpViol := 0 // violations that are the known finding type_argument_with_containers and nothing else
	add := func(f string, a ...any) { viol = append(viol, fmt.Sprintf(f, a...)) }
	switch obs.Runs[0].Status {
	case "crash":
		add("the generator crashes the process: %s", obs.Runs[0].Detail)
	case "timeout":
		add("the generator does not return within 90 s")
	case "error":
		add("Execute returns an error: %s", obs.Runs[0].Detail)
	case "noparse":
		add("the generated file does not parse: %s", obs.Runs[0].Detail)
	}
	if !obs.SameRerun {
		add("the generated file differs between run 1, 2 and 3 (%s)", diffSummary(obs.Runs))
	}
	if !obs.Compiles {
		add("the package does not compile with the generated file: %s", obs.BuildError)
	} else if obs.BuildError != "" {
		add("%s", obs.BuildError)
	} else {
		if len(obs.Roots) != len(rootDecls) {
			add("test program reported %d roots, expected %d", len(obs.Roots), len(rootDecls))
		}
		for i, v := range obs.Roots {
			if i >= len(rootDecls) {
				break
			}
			d := rootDecls[i]
			switch {
			case v.Panic != "":
				add("%s: test program panicked: %s", v.Type, v.Panic)
			case !v.HasCopy || !v.HasInto:
				add("%s is enabled for deepcopy but has no DeepCopy/DeepCopyInto method", v.Type)
			case !v.NilNil:
				add("%s: DeepCopy of nil is not nil", v.Type)
			case !v.Equal || !v.IntoEqual:
				add("%s: the copy is not deeply equal to the original (%s)", v.Type, v.Detail)
			case !v.Unchanged || !v.IntoUnchanged:
				add("%s: mutating a slice/map of the copy changed the original (%s)", v.Type, v.Detail)
			case v.HasObject != d.Ifaces:
				add("%s: DeepCopyObject present=%v but interfaces tag=%v", v.Type, v.HasObject, d.Ifaces)
			case v.HasObject && !v.ObjectOK:
				add("%s: DeepCopyObject does not return an independent equal copy", v.Type)
			case !v.TPUnchanged:
				add("%s: mutating a slice/map reached through a bare type-parameter field of the copy changed the original: the generic method assigns the field (%s)", v.Type, v.Detail)
				tpViol++
			}
		}
	}
	if len(viol) > 0 && obs.Runs[0].src != nil {
		obs.File = string(obs.Runs[0].src)
	}
	if tpViol > 0 && tpViol == len(viol) && in.typeArgWithContainers() {
		class = "type_argument_with_containers"
	}
	res.Observed = obs
	res.Class = class
	if inDomain {
		res.GoViolations = viol
		res.Coq = coqCase(&in, &obs, rootDecls)
	} else {
		for _, v := range viol {
			res.Notes = append(res.Notes, "outside the domain: "+v)
		}
	}
	res.Tags, res.Nontrivial = tagsOf(&in, &obs)
	return res
}

// aliasSpelling: a slice or map field declared through an alias is copied with make(<the alias name>, ...) - or, as
// well, with make(<the type literal the alias denotes>, ...): the two are identical types.  The model sees the field with
// its alias resolved (Input.resolve) and expects the literal; the observed spelling is normalised to it when it is the
// declared alias name.  Any other spelling stays as observed and equals no model statement.
func (in *Input) aliasSpelling(ms []Method) {
	for mi := range ms {
		m := &ms[mi]
		d := in.decl(m.T)
		if m.Op != "ptrinto" || d == nil {
			continue
		}
		for si := range m.Body {
			st := &m.Body[si]
			if st.Op != "slice" && st.Op != "map" {
				continue
			}
			for _, f := range d.Fields {
				if f.Name == st.F && f.K == KAlias && st.Ty == nospace(f.A) {
					if r := in.resolve(f); r.K == KSlice || r.K == KMap {
						st.Ty = nospace(fieldTypeSrc(r, in.ShadowPkg))
					}
				}
			}
		}
	}
}

func diffSummary(rs []GenRun) string {
	var parts []string
	for k, r := range rs {
		var ops []string
		for _, m := range r.Methods {
			if m.Op == "ptrinto" {
				for _, s := range m.Body {
					if s.Op != "assign" {
						ops = append(ops, m.T+"."+s.F+":"+s.Op)
					}
				}
			}
		}
		parts = append(parts, fmt.Sprintf("run%d %s %d methods [%s]", k+1, r.Status, len(r.Methods), strings.Join(ops, " ")))
	}
	return strings.Join(parts, "; ")
}

// knownClass: the finding class the INPUT falls in (known_findings.d/C17.json): the one open finding first, then the
// classes of the repaired defects (they only matter when the case fails, i.e. on a tree without the repairs).
func (in *Input) knownClass() string {
	if c := in.shadowClass(); c != "" {
		return c
	}
	if in.hasBlankField() {
		return "blank_field"
	}
	for _, d := range in.Decls {
		for _, f := range d.Fields {
			if r := in.resolve(f); f.K == KAlias && (r.K == KSlice || r.K == KMap) {
				return "alias_container_field_shared"
			}
		}
	}
	for _, d := range in.Decls {
		for _, f := range d.Fields {
			if in.resolve(f).K == KError {
				return "error_field"
			}
		}
	}
	for _, d := range in.Decls {
		for _, f := range d.Fields {
			f = in.resolve(f)
			if f.K != KNamed {
				continue
			}
			t := in.decl(f.A)
			if t == nil {
				continue
			}
			switch {
			case t.Kind == DIface:
				return "named_interface_field"
			case len(f.Args) > 0:
				return "instantiated_generic_field"
			case !in.enabled(t):
				return "untagged_dependency"
			case t.Kind == DMap:
				return "named_map_field_first_run"
			}
		}
	}
	for _, d := range in.Decls {
		if d.Kind == DMap && d.Ifaces {
			return "interfaces_tag_on_map_type"
		}
	}
	return ""
}

// typeArgWithContainers: some instantiation's type argument is, or by value contains, a slice or a map (the input class of the
// known finding type_argument_with_containers; the class is given to a failing case only when the ONLY thing that fails
// is the no-sharing sentence for containers reached through a bare type-parameter field).
func (in *Input) typeArgWithContainers() bool {
	var holds func(name string, fuel int) bool
	holds = func(name string, fuel int) bool {
		d := in.decl(name)
		if d == nil || fuel == 0 {
			return false
		}
		switch d.Kind {
		case DMap:
			return true
		case DStruct:
			for _, f := range d.Fields {
				f = in.resolve(f)
				switch f.K {
				case KSlice, KMap, KSliceOf, KSliceSl:
					return true
				case KNamed:
					if holds(f.A, fuel-1) {
						return true
					}
					for _, a := range f.Args {
						if holds(a, fuel-1) {
							return true
						}
					}
				}
			}
		}
		return false
	}
	for _, d := range in.Decls {
		for _, f := range d.Fields {
			f = in.resolve(f)
			if f.K != KNamed {
				continue
			}
			for _, a := range f.Args {
				if holds(a, len(in.Decls)+1) {
					return true
				}
			}
		}
	}
	return false
}

func (in *Input) shadowClass() string {
	if in.ShadowPkg == "" {
		return ""
	}
	// the locals declared around the make(...) expression: i, o (block) and in, out (receiver, parameter);
	// key and val are declared by the for statement AFTER make(...), so they do not shadow the type expression
	switch in.ShadowPkg {
	case "i", "o", "in", "out":
	default:
		return ""
	}
	for _, d := range in.Decls {
		for _, f := range d.Fields {
			if (f.K == KSlice && strings.Contains(f.A, ".")) || (f.K == KMap && strings.Contains(f.B, ".")) {
				return "import_name_shadows_template_local"
			}
		}
	}
	return ""
}

func tagsOf(in *Input, obs *Observed) ([]string, bool) {
	set := map[string]bool{}
	if in.PkgTag {
		set["pkg_tag"] = true
	}
	if !in.InDomain() {
		set["outside_domain"] = true
	}
	depth := in.depth()
	set[fmt.Sprintf("depth=%d", depth)] = true
	if in.Base != "" {
		set["output_base_not_zz_generated"] = true
	}
	nontrivial := false
	for i := range in.Decls {
		d := &in.Decls[i]
		set["decl_"+d.Kind] = true
		if len(d.TParams) > 0 {
			set["generic_struct"] = true
		}
		if d.Ifaces {
			set["interfaces_tag"] = true
		}
		for _, f := range d.Fields {
			set["field_"+f.K] = true
			if f.K == KAlias {
				where := "same_package"
				if strings.HasPrefix(f.A, "ext.") {
					where = "foreign"
				}
				f = in.resolve(f)
				set["field_alias_"+where+"_of_"+f.K] = true
			}
			set["fieldname_"+nameShapeOf(f.Name)] = true
			if !in.enabled(d) {
				set["fieldname_"+nameShapeOf(f.Name)+"_in_untagged_type"] = true
			}
			if f.K == KNamed {
				if t := in.decl(f.A); t != nil {
					set["field_named_"+t.Kind] = true
					if !in.enabled(t) {
						set["untagged_dependency"] = true
					}
					if len(f.Args) > 0 {
						set["field_instantiated"] = true
					}
				}
				nontrivial = true
			}
			if f.K == KSlice || f.K == KMap {
				nontrivial = true
			}
		}
	}
	for _, v := range obs.Roots {
		if v.Depth >= 2 {
			set["mutated_container_depth>=2"] = true
		}
	}
	var tags []string
	for k := range set {
		tags = append(tags, k)
	}
	sort.Strings(tags)
	return tags, nontrivial
}

// depth: longest chain of struct-by-value nesting.
func (in *Input) depth() int {
	memo := map[string]int{}
	var rec func(n string, fuel int) int
	rec = func(n string, fuel int) int {
		if v, ok := memo[n]; ok {
			return v
		}
		d := in.decl(n)
		if d == nil || d.Kind != DStruct || fuel == 0 {
			return 0
		}
		best := 0
		for _, f := range d.Fields {
			if f = in.resolve(f); f.K == KNamed {
				if x := rec(f.A, fuel-1); x > best {
					best = x
				}
			}
		}
		memo[n] = best + 1
		return best + 1
	}
	best := 0
	for _, d := range in.Decls {
		if x := rec(d.Name, len(in.Decls)+1); x > best {
			best = x
		}
	}
	return best
}
