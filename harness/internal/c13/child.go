package c13

// The supervised child: loads a module with the REAL types.Load (one or more times in this
// process), derives the abstract input data for the model from go/types / go/packages
// (TypesInfo.Defs through Files()+ObjectOf, Pkg().Scope(), Named.Method(i), packages.Package.Imports)
// and observes the accessors of the loaded universe.

import (
	"encoding/json"
	"fmt"
	"go/ast"
	"go/token"
	gotypes "go/types"
	"os"
	"path/filepath"
	"runtime/debug"
	"sort"
	"strconv"
	"strings"

	"github.com/octohelm/gengo/pkg/types"
	"golang.org/x/tools/go/packages"

	"verifharness/internal/core"
)

const unknownID = 16777215 // an object / type the numbering does not know

type shape struct {
	T string  `json:"t"`           // "named" | "ptr" | "other"
	N *[2]int `json:"n,omitempty"` // named: (id, origin id); ptr: element when it is a Named
}

type recvData struct {
	Raw shape `json:"raw"`
	Un  shape `json:"un"`
}

type objData struct {
	ID       int       `json:"id"`
	Kind     string    `json:"kind"` // func | type | const | other
	Name     string    `json:"name"`
	PkgScope bool      `json:"pkg_scope"`
	Recv     *recvData `json:"recv,omitempty"`
	Pos      string    `json:"pos"`
}

type scopeEnt struct {
	Kind string `json:"kind"`
	Name string `json:"name"`
	ID   int    `json:"id"`
}

type declM struct {
	ID  int  `json:"id"`
	Ptr bool `json:"ptr"`
}

type queryData struct {
	Label    string  `json:"label"`
	Ref      [2]int  `json:"ref"`
	Iface    bool    `json:"iface"`
	Declared []declM `json:"declared"`
}

type lookupQ struct {
	Kind string `json:"kind"`
	Name string `json:"name"`
}

type pkgData struct {
	Path    string      `json:"path"`
	Mod     *[2]string  `json:"mod,omitempty"` // module path, dir
	Syntax  bool        `json:"syntax"`
	Defs    []objData   `json:"defs"`
	Scope   []scopeEnt  `json:"scope"`
	Queries []queryData `json:"queries"`
	Lookups []lookupQ   `json:"lookups"`
	Dir     string      `json:"dir"`
	Probes  []string    `json:"probes"`
	PosTies bool        `json:"pos_ties,omitempty"` // two methods of Defs share (file name, offset): their relative order is open
}

type uNode struct {
	Path    string      `json:"path"`
	Imports [][2]string `json:"imports"` // import path, PkgPath of the imported package; sorted
	Mod     *[2]string  `json:"mod,omitempty"`
}

type inputData struct {
	Universe []uNode   `json:"universe"`
	Roots    []string  `json:"roots"`
	Pkgs     []pkgData `json:"pkgs"`
	Facts    []string  `json:"facts,omitempty"` // trusted-base tests that FAILED on this case
}

type tblEnt struct {
	Name string `json:"name"`
	ID   int    `json:"id"`
}

type lookupObs struct {
	Kind string `json:"kind"`
	Name string `json:"name"`
	ID   *int   `json:"id"` // nil = nil object
}

type pkgObs struct {
	Nil       bool        `json:"nil,omitempty"` // Universe.Package(path) == nil
	Types     []tblEnt    `json:"types"`
	Consts    []tblEnt    `json:"consts"`
	Funcs     []tblEnt    `json:"funcs"`
	Lookups   []lookupObs `json:"lookups"`
	Methods   [][2][]int  `json:"methods"`
	SourceDir string      `json:"source_dir"`
	Locate    []*string   `json:"locate"`
}

type impEnt struct {
	Key    string `json:"key"`
	NonNil bool   `json:"non_nil"`
	Same   bool   `json:"same"`
}

type loadObs struct {
	Pkgs    []pkgObs   `json:"pkgs"`
	Imports [][]impEnt `json:"imports"` // aligned with Universe
}

type childOut struct {
	LoadErr string     `json:"load_err,omitempty"`
	Data    *inputData `json:"data,omitempty"`
	Loads   []loadObs  `json:"loads,omitempty"`
	Sweep   *sweepOut  `json:"sweep,omitempty"`
}

func init() {
	core.Children["c13-child"] = childMain
}

// vh c13-child <out.json> <mode: detail|sweep> <dir> <loads> <patterns...>
func childMain(args []string) int {
	debug.SetMaxStack(512 << 20)
	if len(args) < 5 {
		fmt.Fprintln(os.Stderr, "usage: c13-child out mode dir loads patterns...")
		return 2
	}
	outFile, mode, dir := args[0], args[1], args[2]
	loads, _ := strconv.Atoi(args[3])
	patterns := args[4:]
	var out childOut
	func() {
		defer func() {
			if r := recover(); r != nil {
				out.LoadErr = fmt.Sprintf("panic: %v", r)
			}
		}()
		for i := 0; i < loads; i++ {
			light, err := lightLoad(dir, patterns)
			if err != nil {
				out.LoadErr = "packages.Load: " + firstLine(err.Error())
				return
			}
			u, err := types.Load(patterns, types.WithDir(dir))
			if err != nil {
				out.LoadErr = "types.Load: " + firstLine(err.Error())
				return
			}
			data, obs, sw := observe(u, light, mode == "sweep", dir)
			if mode == "sweep" {
				out.Sweep = sw
				return
			}
			if out.Data == nil {
				out.Data = data
			} else if !jsonEq(out.Data, data) {
				out.Data.Facts = append(out.Data.Facts, "input data differs between two loads in one process")
			}
			out.Loads = append(out.Loads, *obs)
		}
	}()
	b, _ := json.Marshal(out)
	if err := os.WriteFile(outFile, b, 0o644); err != nil {
		fmt.Fprintln(os.Stderr, err)
		return 2
	}
	return 0
}

func firstLine(s string) string {
	if i := strings.IndexByte(s, '\n'); i >= 0 {
		s = s[:i]
	}
	if len(s) > 300 {
		s = s[:300]
	}
	return s
}

func jsonEq(a, b any) bool {
	x, _ := json.Marshal(a)
	y, _ := json.Marshal(b)
	return string(x) == string(y)
}

type lightInfo struct {
	roots []string
	all   map[string]*packages.Package
	order []string // sorted paths
}

func lightLoad(dir string, patterns []string) (*lightInfo, error) {
	cfg := &packages.Config{Dir: dir, Mode: packages.NeedName | packages.NeedFiles | packages.NeedCompiledGoFiles | packages.NeedImports | packages.NeedDeps | packages.NeedModule}
	// (NeedCompiledGoFiles as in types.Load: the import map of a cgo package then includes runtime/cgo)
	pkgs, err := packages.Load(cfg, patterns...)
	if err != nil {
		return nil, err
	}
	li := &lightInfo{all: map[string]*packages.Package{}}
	for _, p := range pkgs {
		li.roots = append(li.roots, p.PkgPath)
	}
	packages.Visit(pkgs, nil, func(p *packages.Package) {
		li.all[p.PkgPath] = p
	})
	for k := range li.all {
		li.order = append(li.order, k)
	}
	sort.Strings(li.order)
	return li, nil
}

func kindOf(o gotypes.Object) string {
	switch o.(type) {
	case *gotypes.Func:
		return "func"
	case *gotypes.TypeName:
		return "type"
	case *gotypes.Const:
		return "const"
	}
	return "other"
}

// numbering of *types.Named values by identity, in order of first sight
type namedIDs struct {
	m map[*gotypes.Named]int
}

func (n *namedIDs) id(t *gotypes.Named) int {
	if v, ok := n.m[t]; ok {
		return v
	}
	v := len(n.m) + 1
	n.m[t] = v
	return v
}

func (n *namedIDs) ref(t *gotypes.Named) *[2]int {
	a := n.id(t)
	b := n.id(t.Origin())
	return &[2]int{a, b}
}

func (n *namedIDs) shapeOf(t gotypes.Type, unalias bool) shape {
	if unalias {
		t = gotypes.Unalias(t)
	}
	switch x := t.(type) {
	case *gotypes.Pointer:
		e := x.Elem()
		if unalias {
			e = gotypes.Unalias(e)
		}
		if nm, ok := e.(*gotypes.Named); ok {
			return shape{T: "ptr", N: n.ref(nm)}
		}
		return shape{T: "ptr"}
	case *gotypes.Named:
		return shape{T: "named", N: n.ref(x)}
	}
	return shape{T: "other"}
}

type pkgView struct {
	p      types.Package
	defs   []gotypes.Object
	objID  map[gotypes.Object]int
	nids   *namedIDs
	data   pkgData
	qTypes []*gotypes.Named
	probes []token.Pos
}

// posKey: the key newPkg orders the method lists by (package.go:146-157): file name and offset of the position as
// Fset.Position reports it (the file name adjusted by //line directives, the offset in the real file).
func posKey(p types.Package, pos token.Pos) (string, int) {
	pp := p.FileSet().Position(pos)
	return pp.Filename, pp.Offset
}

func buildView(p types.Package, lp *packages.Package, maxProbes int, maxLookups int) *pkgView {
	v := &pkgView{p: p, objID: map[gotypes.Object]int{}, nids: &namedIDs{m: map[*gotypes.Named]int{}}}
	v.data.Path = lp.PkgPath
	if lp.Module != nil {
		v.data.Mod = &[2]string{lp.Module.Path, lp.Module.Dir}
	}
	v.data.Dir = lp.Dir
	files := p.Files()
	v.data.Syntax = len(files) > 0
	// TypesInfo.Defs = the non-nil objects whose defining identifier is in the syntax
	seen := map[gotypes.Object]bool{}
	for _, f := range files {
		ast.Inspect(f, func(n ast.Node) bool {
			if id, ok := n.(*ast.Ident); ok {
				if o := p.ObjectOf(id); o != nil && o.Pos() == id.Pos() && !seen[o] {
					seen[o] = true
					v.defs = append(v.defs, o)
				}
			}
			return true
		})
	}
	sort.SliceStable(v.defs, func(i, j int) bool {
		fi, oi := posKey(p, v.defs[i].Pos())
		fj, oj := posKey(p, v.defs[j].Pos())
		if fi != fj {
			return fi < fj
		}
		return oi < oj
	})
	scope := p.Pkg().Scope()
	for i, o := range v.defs {
		v.objID[o] = i + 1
	}
	// object ids are ranks in (file name, offset) order; sort.Slice in newPkg is not stable, so the order of two
	// methods with the same key (only possible through //line directives) is open
	{
		type fo struct {
			f string
			o int
		}
		seenKey := map[fo]bool{}
		for _, o := range v.defs {
			if f, ok := o.(*gotypes.Func); ok {
				if sig, ok := f.Type().(*gotypes.Signature); ok && sig.Recv() != nil {
					fn, off := posKey(p, o.Pos())
					if seenKey[fo{fn, off}] {
						v.data.PosTies = true
					}
					seenKey[fo{fn, off}] = true
				}
			}
		}
	}
	for i, o := range v.defs {
		od := objData{ID: i + 1, Kind: kindOf(o), Name: o.Name(), PkgScope: o.Parent() == scope}
		fn, off := posKey(p, o.Pos())
		od.Pos = filepath.Base(fn) + "@" + strconv.Itoa(off)
		if f, ok := o.(*gotypes.Func); ok {
			if sig, ok := f.Type().(*gotypes.Signature); ok && sig.Recv() != nil {
				rt := sig.Recv().Type()
				od.Recv = &recvData{Raw: v.nids.shapeOf(rt, false), Un: v.nids.shapeOf(rt, true)}
			}
		}
		v.data.Defs = append(v.data.Defs, od)
	}
	// oracle: the package scope
	names := scope.Names()
	for _, n := range names {
		o := scope.Lookup(n)
		id, ok := v.objID[o]
		if !ok {
			id = unknownID
		}
		v.data.Scope = append(v.data.Scope, scopeEnt{Kind: kindOf(o), Name: n, ID: id})
	}
	// queries: every package-level defined type, and every instantiation that is the type of a package-level object
	addQ := func(label string, nm *gotypes.Named) {
		for _, q := range v.qTypes {
			if q == nm {
				return
			}
		}
		q := queryData{Label: label, Ref: *v.nids.ref(nm)}
		_, q.Iface = nm.Underlying().(*gotypes.Interface)
		for i := 0; i < nm.NumMethods(); i++ {
			m := nm.Method(i).Origin()
			id, ok := v.objID[m]
			if !ok {
				id = unknownID
			}
			ptr := false
			if sig, ok := m.Type().(*gotypes.Signature); ok && sig.Recv() != nil {
				_, ptr = gotypes.Unalias(sig.Recv().Type()).(*gotypes.Pointer)
			}
			q.Declared = append(q.Declared, declM{ID: id, Ptr: ptr})
		}
		v.data.Queries = append(v.data.Queries, q)
		v.qTypes = append(v.qTypes, nm)
	}
	for _, n := range names {
		o := scope.Lookup(n)
		switch x := o.(type) {
		case *gotypes.TypeName:
			if nm, ok := x.Type().(*gotypes.Named); ok && nm.Obj().Pkg() == p.Pkg() {
				addQ(n, nm)
			}
		}
	}
	for _, n := range names {
		o := scope.Lookup(n)
		if _, isT := o.(*gotypes.TypeName); isT {
			continue
		}
		t := o.Type()
		if pt, ok := gotypes.Unalias(t).(*gotypes.Pointer); ok {
			t = pt.Elem()
		}
		if nm, ok := gotypes.Unalias(t).(*gotypes.Named); ok && nm.Obj() != nil && nm.Obj().Pkg() == p.Pkg() && nm.Origin() != nm {
			addQ(n+":"+nm.String(), nm)
		}
	}
	// lookups: scope names under each kind, plus names that only the tables could know
	lset := map[lookupQ]bool{}
	addL := func(k, n string) {
		q := lookupQ{k, n}
		if !lset[q] && (maxLookups <= 0 || len(v.data.Lookups) < maxLookups) {
			lset[q] = true
			v.data.Lookups = append(v.data.Lookups, q)
		}
	}
	for _, n := range names {
		for _, k := range []string{"type", "const", "func"} {
			addL(k, n)
		}
	}
	for _, od := range v.data.Defs {
		if od.Kind != "other" && od.Recv == nil {
			addL(od.Kind, od.Name)
		}
	}
	for _, k := range []string{"type", "const", "func"} {
		addL(k, "NoSuchName")
	}
	// probes: positions all over every file - "the package whose file contains pos" speaks of the file's whole
	// extent [FileStart, FileEnd], not of the syntax tree's (ast.File.Pos() is the `package` keyword, End() the end
	// of the last declaration): the first byte (file doc, //go:build lines, `// +gengo:` tag comments above the
	// package clause), every comment group, the package clause, every top-level declaration (start and last
	// byte), the trailing comments behind the last declaration, the last byte and FileEnd, and byte offsets
	// spread evenly over the file.  With a budget, the positions outside [File.Pos(), File.End()] come first.
	type cand struct {
		pos  token.Pos
		prio int
	}
	var cands []cand
	for _, f := range files {
		start, end := f.FileStart, f.FileEnd
		if !start.IsValid() || !end.IsValid() {
			start, end = f.Pos(), f.End()
		}
		var ps []cand
		ps = append(ps, cand{start, 0}, cand{f.Package, 0}, cand{f.Name.Pos(), 2})
		if end > start {
			ps = append(ps, cand{end - 1, 0})
		}
		ps = append(ps, cand{end, 1})
		for i, cg := range f.Comments {
			pr := 2
			if cg.End() <= f.Package || cg.Pos() >= f.End() || i == 0 || i == len(f.Comments)-1 {
				pr = 0 // above the package clause / behind the last declaration
			}
			if maxProbes <= 0 && pr != 0 && i > 2 && i < len(f.Comments)-3 {
				continue // the sweep: not every comment of every std file
			}
			ps = append(ps, cand{cg.Pos(), pr}, cand{cg.End() - 1, pr + 1})
		}
		for _, d := range f.Decls {
			ps = append(ps, cand{d.Pos(), 1}, cand{d.End() - 1, 3})
		}
		if n := int(end - start); n > 0 {
			k := 16
			for j := 1; j < k; j++ {
				ps = append(ps, cand{start + token.Pos(j*n/k), 3})
			}
		}
		cands = append(cands, ps...)
	}
	sort.SliceStable(cands, func(i, j int) bool { return cands[i].prio < cands[j].prio })
	seenPos := map[token.Pos]bool{}
	for _, c := range cands {
		if maxProbes > 0 && len(v.probes) >= maxProbes {
			break
		}
		if !c.pos.IsValid() || seenPos[c.pos] {
			continue
		}
		seenPos[c.pos] = true
		v.probes = append(v.probes, c.pos)
		v.data.Probes = append(v.data.Probes, filepath.Dir(p.FileSet().Position(c.pos).Filename))
	}
	return v
}

func (v *pkgView) tableObs(m map[string]gotypes.Object) []tblEnt {
	var out []tblEnt
	for k, o := range m {
		id, ok := v.objID[o]
		if !ok {
			id = unknownID
		}
		out = append(out, tblEnt{k, id})
	}
	sort.Slice(out, func(i, j int) bool { return out[i].Name < out[j].Name })
	return out
}

func (v *pkgView) observe(u *types.Universe) pkgObs {
	p := v.p
	var o pkgObs
	tm, cm, fm := map[string]gotypes.Object{}, map[string]gotypes.Object{}, map[string]gotypes.Object{}
	for k, x := range p.Types() {
		tm[k] = x
	}
	for k, x := range p.Constants() {
		cm[k] = x
	}
	for k, x := range p.Functions() {
		fm[k] = x
	}
	o.Types, o.Consts, o.Funcs = v.tableObs(tm), v.tableObs(cm), v.tableObs(fm)
	for _, q := range v.data.Lookups {
		var obj gotypes.Object
		switch q.Kind {
		case "type":
			if x := p.Type(q.Name); x != nil {
				obj = x
			}
		case "const":
			if x := p.Constant(q.Name); x != nil {
				obj = x
			}
		case "func":
			if x := p.Function(q.Name); x != nil {
				obj = x
			}
		}
		lo := lookupObs{Kind: q.Kind, Name: q.Name}
		if obj != nil {
			id, ok := v.objID[obj]
			if !ok {
				id = unknownID
			}
			lo.ID = &id
		}
		o.Lookups = append(o.Lookups, lo)
	}
	ids := func(fs []*gotypes.Func) []int {
		out := []int{}
		for _, f := range fs {
			id, ok := v.objID[f]
			if !ok {
				id = unknownID
			}
			out = append(out, id)
		}
		return out // in the order MethodsOf returned them (the model predicts the order: package.go:146-157)
	}
	for _, nm := range v.qTypes {
		o.Methods = append(o.Methods, [2][]int{ids(p.MethodsOf(nm, true)), ids(p.MethodsOf(nm, false))})
	}
	o.SourceDir = p.SourceDir()
	for _, pos := range v.probes {
		lp := u.LocateInPackage(pos)
		if lp == nil {
			o.Locate = append(o.Locate, nil)
		} else {
			s := lp.Pkg().Path()
			if lp != u.Package(s) {
				s = "!not-the-universe's-package:" + s
			}
			o.Locate = append(o.Locate, &s)
		}
	}
	return o
}

func observeImports(u *types.Universe, lp *packages.Package) []impEnt {
	p := u.Package(lp.PkgPath)
	out := []impEnt{}
	if p == nil {
		return append(out, impEnt{Key: "!package-is-nil"})
	}
	for k, v := range p.Imports() {
		e := impEnt{Key: k, NonNil: v != nil}
		if t, ok := lp.Imports[k]; ok && v != nil {
			e.Same = v == u.Package(t.PkgPath)
		}
		out = append(out, e)
	}
	sort.Slice(out, func(i, j int) bool { return out[i].Key < out[j].Key })
	return out
}

// observe derives the input data and the observation of one load.
func observe(u *types.Universe, li *lightInfo, sweep bool, dir string) (*inputData, *loadObs, *sweepOut) {
	data := &inputData{Roots: li.roots}
	obs := &loadObs{}
	var sw *sweepOut
	if sweep {
		sw = &sweepOut{Counts: map[string]int{}}
	}
	for _, path := range li.order {
		lp := li.all[path]
		nd := uNode{Path: path, Imports: [][2]string{}}
		for k, t := range lp.Imports {
			nd.Imports = append(nd.Imports, [2]string{k, t.PkgPath})
		}
		sort.Slice(nd.Imports, func(i, j int) bool { return nd.Imports[i][0] < nd.Imports[j][0] })
		if lp.Module != nil {
			nd.Mod = &[2]string{lp.Module.Path, lp.Module.Dir}
		}
		data.Universe = append(data.Universe, nd)
		imps := observeImports(u, lp)
		obs.Imports = append(obs.Imports, imps)
		detail := sweep || (lp.Module != nil && (lp.Module.Main || lp.Module.Replace != nil))
		if sweep {
			sw.Packages++
			sweepImports(sw, nd, imps)
		}
		if !detail {
			continue
		}
		p := u.Package(path)
		if p == nil {
			if sweep {
				sw.add("universe", path+": Universe.Package returns nil for a loaded package")
			} else {
				data.Pkgs = append(data.Pkgs, pkgData{Path: path, Dir: lp.Dir})
				obs.Pkgs = append(obs.Pkgs, pkgObs{Nil: true})
			}
			continue
		}
		maxP, maxL := 48, 60
		if sweep {
			maxP, maxL = 0, 0
		}
		v := buildView(p, lp, maxP, maxL)
		po := v.observe(u)
		// trusted-base tests
		if m := lp.Module; m != nil && lp.PkgPath != m.Path {
			if !strings.HasPrefix(lp.PkgPath, m.Path) {
				data.Facts = append(data.Facts, path+": PkgPath does not start with the module path")
			} else if suf := lp.PkgPath[len(m.Path):]; filepath.Join(m.Dir, suf) != m.Dir+suf {
				data.Facts = append(data.Facts, path+": filepath.Join(module dir, suffix) is not the concatenation")
			} else if lp.Dir != m.Dir+suf {
				data.Facts = append(data.Facts, path+": package directory is not <module dir><suffix>")
			}
		} else if m != nil && lp.Dir != m.Dir {
			data.Facts = append(data.Facts, path+": root package directory is not the module dir")
		}
		if sweep {
			sw.Objects += len(v.data.Defs)
			sweepPkg(sw, &v.data, &po)
			continue
		}
		data.Pkgs = append(data.Pkgs, v.data)
		obs.Pkgs = append(obs.Pkgs, po)
	}
	// go list -deps lists dependencies first: no root is reachable from an earlier root
	reach := func(from string) map[string]bool {
		seen := map[string]bool{}
		var rec func(p string)
		rec = func(p string) {
			if seen[p] {
				return
			}
			seen[p] = true
			if lp := li.all[p]; lp != nil {
				for _, t := range lp.Imports {
					rec(t.PkgPath)
				}
			}
		}
		rec(from)
		return seen
	}
	for i := range li.roots {
		r := reach(li.roots[i])
		for j := i + 1; j < len(li.roots); j++ {
			if r[li.roots[j]] {
				data.Facts = append(data.Facts, fmt.Sprintf("root %s is listed before its dependency %s", li.roots[i], li.roots[j]))
			}
		}
	}
	if sweep {
		sw.Facts = data.Facts
	}
	return data, obs, sw
}
