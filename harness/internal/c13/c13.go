// Package c13: the loaded universe (types.Load, Package accessors) against go/types' own view.
//
// Every case is a synthetic module written to scratch and loaded with the real types.Load in several
// fresh child processes (Go map iteration order differs per process and per range loop); the child
// also derives the model's input data (the abstract Defs list, the package scope, Named.Method(i),
// packages.Package.Imports).  The thorough tier additionally sweeps the whole dependency closure of
// the repository's own module with the Go-side copy of the property predicate.
package c13

import (
	"context"
	"crypto/sha256"
	"encoding/binary"
	"encoding/json"
	"fmt"
	"os"
	"os/exec"
	"path/filepath"
	"strings"
	"time"

	"verifharness/internal/core"
)

type prop struct{}

func init() { core.Register(prop{}) }

func (prop) ID() string        { return "C13" }
func (prop) CoqModule() string { return "Gengo.Corr.C13" }
func (prop) Parallel() int     { return 6 }

const modPath = "example.com/m"
const depPath = "example.com/dep"

type fileIn struct {
	Name  string   `json:"name"`
	Decls []string `json:"decls"`
	// text above the package clause (package doc, //go:build lines, `// +gengo:` tag comments) and behind the
	// last declaration (trailing comments): parts of the file that lie outside [ast.File.Pos(), ast.File.End()]
	Head string `json:"head,omitempty"`
	Tail string `json:"tail,omitempty"`
}

type pkgIn struct {
	Dir     string   `json:"dir"` // relative to the module root, "" = root package
	Name    string   `json:"name"`
	Imports []string `json:"imports,omitempty"` // import paths (blank imports)
	Files   []fileIn `json:"files"`
}

type input struct {
	Pkgs  []pkgIn  `json:"pkgs"`
	Dep   []pkgIn  `json:"dep,omitempty"` // packages of a second module (depPath) used through `replace depPath => ./depco`
	Roots []string `json:"roots"`         // patterns, relative to the module root
	Procs int      `json:"procs"`         // fresh processes
	Loads int      `json:"loads"`         // loads per process
	Note  string   `json:"note,omitempty"`
}

func (in *input) norm() {
	if in.Procs < 1 {
		in.Procs = 1
	}
	if in.Procs > 8 {
		in.Procs = 8
	}
	if in.Loads < 1 {
		in.Loads = 1
	}
	if in.Loads > 4 {
		in.Loads = 4
	}
	if len(in.Roots) == 0 {
		in.Roots = []string{"./..."}
	}
}

// class predicate line_directive_foreign_dir: some declaration carries a //line directive whose
// file name has a directory component (go/token then reports positions in another directory).
func foreignLineDirective(in *input) bool {
	for _, p := range in.Pkgs {
		for _, f := range p.Files {
			for _, d := range f.Decls {
				for _, l := range strings.Split(d, "\n") {
					if rest, ok := strings.CutPrefix(l, "//line "); ok {
						name := rest
						if i := strings.IndexByte(rest, ':'); i >= 0 {
							name = rest[:i]
						}
						if strings.Contains(name, "/") {
							return true
						}
					}
				}
			}
		}
	}
	return false
}

func writeModule(dir string, in *input) error {
	if err := os.MkdirAll(dir, 0o755); err != nil {
		return err
	}
	gomod := "module " + modPath + "\n\ngo 1.24.2\n"
	if len(in.Dep) > 0 {
		// a dependency whose sources live in a local checkout: Module.Dir is the replacement's directory,
		// Module.Replace.Path ("./depco") is NOT an import-path prefix
		gomod += "\nrequire " + depPath + " v0.0.0\n\nreplace " + depPath + " => ./depco\n"
		if err := os.MkdirAll(filepath.Join(dir, "depco"), 0o755); err != nil {
			return err
		}
		if err := os.WriteFile(filepath.Join(dir, "depco", "go.mod"), []byte("module "+depPath+"\n\ngo 1.24.2\n"), 0o644); err != nil {
			return err
		}
	}
	if err := os.WriteFile(filepath.Join(dir, "go.mod"), []byte(gomod), 0o644); err != nil {
		return err
	}
	type placed struct {
		root string
		p    pkgIn
	}
	var all []placed
	for _, p := range in.Pkgs {
		all = append(all, placed{dir, p})
	}
	for _, p := range in.Dep {
		all = append(all, placed{filepath.Join(dir, "depco"), p})
	}
	for _, pl := range all {
		p, dir := pl.p, pl.root
		pd := filepath.Join(dir, filepath.FromSlash(p.Dir))
		if err := os.MkdirAll(pd, 0o755); err != nil {
			return err
		}
		for i, f := range p.Files {
			var b strings.Builder
			b.WriteString(f.Head)
			fmt.Fprintf(&b, "package %s\n\n", p.Name)
			if i == 0 {
				for _, imp := range p.Imports {
					fmt.Fprintf(&b, "import _ %q\n", imp)
				}
				b.WriteString("\n")
			}
			for _, d := range f.Decls {
				b.WriteString(d)
				b.WriteString("\n\n")
			}
			b.WriteString(f.Tail)
			name := filepath.Base(f.Name)
			if !strings.HasSuffix(name, ".go") {
				name += ".go"
			}
			if err := os.WriteFile(filepath.Join(pd, name), []byte(b.String()), 0o644); err != nil {
				return err
			}
		}
	}
	return nil
}

func runChild(outFile, mode, dir string, loads int, patterns []string, timeout time.Duration) (*childOut, error) {
	exe, err := os.Executable()
	if err != nil {
		return nil, err
	}
	ctx, cancel := context.WithTimeout(context.Background(), timeout)
	defer cancel()
	args := append([]string{"c13-child", outFile, mode, dir, fmt.Sprint(loads)}, patterns...)
	cmd := exec.CommandContext(ctx, exe, args...)
	cmd.Stdout = nil // the real code prints "[warning]" lines
	var stderr strings.Builder
	cmd.Stderr = &stderr
	if err := cmd.Run(); err != nil {
		return nil, fmt.Errorf("child: %v: %s", err, firstLine(stderr.String()))
	}
	b, err := os.ReadFile(outFile)
	if err != nil {
		return nil, err
	}
	var co childOut
	if err := json.Unmarshal(b, &co); err != nil {
		return nil, err
	}
	return &co, nil
}

type observed struct {
	LoadErr      string   `json:"load_err,omitempty"`
	Runs         int      `json:"runs"`
	DistinctRuns int      `json:"distinct_runs"`
	First        *loadObs `json:"first,omitempty"`
	Findings     []string `json:"findings,omitempty"` // Go-side reading of the same predicate, for the reader of a replay
	Packages     []string `json:"packages,omitempty"`
	Roots        []string `json:"roots,omitempty"`
	Facts        []string `json:"failed_trusted_base_tests,omitempty"`
	ElapsedMS    int64    `json:"elapsed_ms"` // wall time of this case (information only)
}

func (prop) Run(raw json.RawMessage, scratch string) core.Result {
	var in input
	_ = json.Unmarshal(raw, &in)
	in.norm()
	var res core.Result
	var obs observed
	t0 := time.Now()
	dir := filepath.Join(scratch, "mod")
	if err := writeModule(dir, &in); err != nil {
		res.Observed = observed{LoadErr: "harness: " + err.Error()}
		res.Notes = append(res.Notes, "harness could not write the module: "+err.Error())
		return res
	}
	var outs []*childOut
	for i := 0; i < in.Procs; i++ {
		co, err := runChild(filepath.Join(scratch, fmt.Sprintf("out%d.json", i)), "detail", dir, in.Loads, in.Roots, 180*time.Second)
		if err != nil {
			res.Observed = observed{LoadErr: err.Error()}
			res.GoViolations = append(res.GoViolations, "loading the module crashed or timed out the process: "+err.Error())
			return res
		}
		outs = append(outs, co)
	}
	nErr := 0
	for _, co := range outs {
		if co.LoadErr != "" {
			nErr++
			obs.LoadErr = co.LoadErr
		}
	}
	if nErr > 0 {
		if nErr != len(outs) {
			res.GoViolations = append(res.GoViolations, "types.Load fails in some processes and succeeds in others: "+obs.LoadErr)
		}
		if strings.HasPrefix(obs.LoadErr, "panic:") {
			res.GoViolations = append(res.GoViolations, "types.Load panics: "+obs.LoadErr)
		}
		res.Observed = obs
		res.Tags = append(res.Tags, "load_error")
		return res
	}
	data := outs[0].Data
	var runs []loadObs
	seen := map[string]bool{}
	for _, co := range outs {
		if !jsonEq(co.Data, data) {
			res.Notes = append(res.Notes, "the input data derived from go/types differs between processes (harness numbering is not deterministic)")
		}
		for _, l := range co.Loads {
			obs.Runs++
			b, _ := json.Marshal(l)
			if !seen[string(b)] {
				seen[string(b)] = true
				runs = append(runs, l)
			}
		}
	}
	obs.DistinctRuns = len(runs)
	obs.First = &runs[0]
	obs.Roots = data.Roots
	obs.Facts = data.Facts
	for _, f := range data.Facts {
		res.Notes = append(res.Notes, "trusted-base test failed: "+f)
	}
	for _, p := range data.Pkgs {
		obs.Packages = append(obs.Packages, p.Path)
	}
	// Go-side reading of the predicate: labels the failure, the decision is Coq's
	kinds := map[string]bool{}
	for _, r := range runs {
		for i := range data.Pkgs {
			if r.Pkgs[i].Nil {
				res.GoViolations = append(res.GoViolations, "Universe.Package("+data.Pkgs[i].Path+") is nil for a loaded package")
			}
			for _, f := range pkgFindings(&data.Pkgs[i], &r.Pkgs[i]) {
				kinds[f.Kind] = true
				if len(obs.Findings) < 12 {
					obs.Findings = append(obs.Findings, f.Kind+": "+f.Msg)
				}
			}
		}
		for i, nd := range data.Universe {
			for _, f := range importFindings(nd, r.Imports[i]) {
				kinds[f.Kind] = true
				if len(obs.Findings) < 12 {
					obs.Findings = append(obs.Findings, f.Kind+": "+f.Msg)
				}
			}
		}
	}
	foreign := foreignLineDirective(&in)
	switch {
	case kinds["scope"]:
		res.Class = "failing:scope"
	case kinds["methods"]:
		res.Class = "failing:methods"
	case kinds["imports"]:
		res.Class = "failing:imports"
	case kinds["source_dir"]:
		res.Class = "failing:source_dir"
	case foreign:
		res.Class = "line_directive_foreign_dir"
	case kinds["locate"]:
		res.Class = "failing:locate"
	}
	obs.ElapsedMS = time.Since(t0).Milliseconds()
	res.Observed = obs
	res.Coq = coqCase(raw, data, runs)

	// distribution
	nLocal, nTParam, nGenericRecv, nAlias, nImports, nInit := 0, 0, 0, 0, 0, 0
	for _, p := range data.Pkgs {
		for _, d := range p.Defs {
			if d.Recv == nil && !d.PkgScope && (d.Kind == "type" || d.Kind == "const") {
				nLocal++
			}
			if d.Kind == "func" && d.Name == "init" {
				nInit++
			}
			if d.Recv != nil {
				if d.Recv.Raw.T == "other" || (d.Recv.Raw.T == "ptr" && d.Recv.Raw.N == nil) {
					nAlias++
				}
				if n := d.Recv.Un.N; n != nil && n[0] != n[1] {
					nGenericRecv++
				}
			}
		}
		_ = nTParam
	}
	for _, nd := range data.Universe {
		nImports += len(nd.Imports)
	}
	tag := func(c bool, t string) {
		if c {
			res.Tags = append(res.Tags, t)
		}
	}
	tag(nLocal > 0, "local_or_tparam_or_blank_objects")
	tag(nGenericRecv > 0, "generic_receivers")
	tag(nAlias > 0, "alias_receivers")
	tag(nImports > 0, "imports")
	tag(nInit > 1, "several_init")
	tag(foreign, "line_directive_foreign_dir")
	tag(len(data.Universe) > len(data.Pkgs), "std_imports")
	tag(len(data.Roots) < len(data.Pkgs), "roots_subset")
	tag(obs.DistinctRuns > 1, "runs_differ")
	res.Tags = append(res.Tags, fmt.Sprintf("pkgs=%d", len(data.Pkgs)))
	res.Nontrivial = nLocal > 0 || nGenericRecv > 0 || nAlias > 0 || nImports > 0
	return res
}

// ---- Coq terms ----

func kindTerm(k string) string {
	switch k {
	case "func":
		return "KFunc"
	case "type":
		return "KType"
	case "const":
		return "KConst"
	}
	return "KOther"
}

func shapeTerm(s shape) string {
	switch s.T {
	case "named":
		return fmt.Sprintf("(TNamed (mk_nref %d %d))", s.N[0], s.N[1])
	case "ptr":
		if s.N != nil {
			return fmt.Sprintf("(TPointer (Some (mk_nref %d %d)))", s.N[0], s.N[1])
		}
		return "(TPointer None)"
	}
	return "TOther"
}

func modTerm(m *[2]string) string {
	if m == nil {
		return "None"
	}
	return fmt.Sprintf("(Some (mk_mod %s %s))", core.Hex(m[0]), core.Hex(m[1]))
}

func tblTerm(t []tblEnt) string {
	var items []string
	for _, e := range t {
		items = append(items, fmt.Sprintf("(%s, %d)", core.Hex(e.Name), e.ID))
	}
	return core.CoqList(items)
}

func intsTerm(xs []int) string {
	var items []string
	for _, x := range xs {
		items = append(items, fmt.Sprint(x))
	}
	return core.CoqList(items)
}

func coqCase(raw json.RawMessage, d *inputData, runs []loadObs) string {
	h := sha256.Sum256(raw)
	rng := core.NewRNG(binary.LittleEndian.Uint64(h[:8]))
	// the real loops range over Go maps (TypesInfo.Defs, Package.Imports, Universe.pkgs): the model gets
	// each of them in an arbitrary (seeded) order
	idx := make([]int, len(d.Universe))
	for i := range idx {
		idx[i] = i
	}
	shuffleN(rng, len(idx), func(i, j int) { idx[i], idx[j] = idx[j], idx[i] })
	var uni []string
	for _, i := range idx {
		nd := d.Universe[i]
		var imps []string
		for _, kt := range nd.Imports {
			imps = append(imps, fmt.Sprintf("(%s, %s)", core.Hex(kt[0]), core.Hex(kt[1])))
		}
		shuffleN(rng, len(imps), func(i, j int) { imps[i], imps[j] = imps[j], imps[i] })
		uni = append(uni, fmt.Sprintf("(mk_gnode %s %s, %s)", core.Hex(nd.Path), core.CoqList(imps), modTerm(nd.Mod)))
	}
	var roots []string
	for _, r := range d.Roots {
		roots = append(roots, core.Hex(r))
	}
	var pkgs []string
	for _, p := range d.Pkgs {
		var defs, scope, qs, probes []string
		for _, o := range p.Defs {
			rv := "None"
			if o.Recv != nil {
				rv = fmt.Sprintf("(Some (mk_recv %s %s))", shapeTerm(o.Recv.Raw), shapeTerm(o.Recv.Un))
			}
			defs = append(defs, fmt.Sprintf("mk_obj %d %s %s %s %s", o.ID, kindTerm(o.Kind), core.Hex(o.Name), core.CoqBool(o.PkgScope), rv))
		}
		shuffleN(rng, len(defs), func(i, j int) { defs[i], defs[j] = defs[j], defs[i] })
		for _, e := range p.Scope {
			scope = append(scope, fmt.Sprintf("(%s, %s, %d)", kindTerm(e.Kind), core.Hex(e.Name), e.ID))
		}
		for _, q := range p.Queries {
			var ds []string
			for _, m := range q.Declared {
				ds = append(ds, fmt.Sprintf("(%d, %s)", m.ID, core.CoqBool(m.Ptr)))
			}
			qs = append(qs, fmt.Sprintf("mk_tquery (mk_nref %d %d) %s %s", q.Ref[0], q.Ref[1], core.CoqBool(q.Iface), core.CoqList(ds)))
		}
		for _, pr := range p.Probes {
			probes = append(probes, core.Hex(pr))
		}
		pkgs = append(pkgs, fmt.Sprintf("mk_pkgin (mk_pinfo %s %s) %s %s %s %s %s %s %s",
			core.Hex(p.Path), modTerm(p.Mod), core.CoqBool(p.Syntax), core.CoqList(defs), core.CoqList(scope), core.CoqList(qs),
			core.Hex(p.Dir), core.CoqList(probes), core.CoqBool(p.PosTies)))
	}
	var rs []string
	for _, r := range runs {
		var pos []string
		for _, o := range r.Pkgs {
			var lks, ms, locs []string
			for _, l := range o.Lookups {
				v := "None"
				if l.ID != nil {
					v = fmt.Sprintf("(Some %d)", *l.ID)
				}
				lks = append(lks, fmt.Sprintf("(%s, %s, %s)", kindTerm(l.Kind), core.Hex(l.Name), v))
			}
			for _, m := range o.Methods {
				ms = append(ms, fmt.Sprintf("(%s, %s)", intsTerm(m[0]), intsTerm(m[1])))
			}
			for _, l := range o.Locate {
				if l == nil {
					locs = append(locs, "None")
				} else {
					locs = append(locs, "(Some "+core.Hex(*l)+")")
				}
			}
			pos = append(pos, fmt.Sprintf("mk_pkgobs %s %s %s %s %s %s %s", tblTerm(o.Types), tblTerm(o.Consts), tblTerm(o.Funcs),
				core.CoqList(lks), core.CoqList(ms), core.Hex(o.SourceDir), core.CoqList(locs)))
		}
		var ios []string
		for _, i := range idx { // aligned with c_universe
			var es []string
			for _, e := range r.Imports[i] {
				es = append(es, fmt.Sprintf("(%s, %s, %s)", core.Hex(e.Key), core.CoqBool(e.NonNil), core.CoqBool(e.Same)))
			}
			ios = append(ios, core.CoqList(es))
		}
		rs = append(rs, fmt.Sprintf("mk_run %s %s", core.CoqList(pos), core.CoqList(ios)))
	}
	return fmt.Sprintf("mk_case %s %s %s %s", core.CoqList(uni), core.CoqList(roots), core.CoqList(pkgs), core.CoqList(rs))
}

func shuffleN(r *core.RNG, n int, swap func(i, j int)) {
	for i := n - 1; i > 0; i-- {
		j := r.Intn(i + 1)
		swap(i, j)
	}
}
