package c13

import (
	"encoding/json"
	"fmt"
	"os"
	"path/filepath"
	"strings"
	"time"

	"verifharness/internal/core"
)

// a small pool, so that locals / type parameters / receivers collide with package-level names
var namePool = []string{"T", "U", "G", "E", "K", "X", "L", "A", "B", "F", "H", "M", "N"}

type pkgGen struct {
	r       *core.RNG
	used    map[string]bool // package-level names
	types   []string        // plain (non-generic, non-interface, non-alias) defined types
	generic []string        // generic struct types with ONE type parameter
	consts  []string
	funcs   []string
	decls   []string
}

func (g *pkgGen) fresh() string {
	for k := 0; k < 40; k++ {
		n := core.Pick(g.r, namePool)
		if k > 10 {
			n += fmt.Sprint(g.r.Intn(9))
		}
		if !g.used[n] {
			g.used[n] = true
			return n
		}
	}
	n := fmt.Sprintf("Z%d", len(g.used))
	g.used[n] = true
	return n
}

// any name of the pool, preferring names that are already package-level (shadowing)
func (g *pkgGen) shadow() string {
	if len(g.used) > 0 && g.r.Chance(70) {
		var ks []string
		for _, n := range namePool {
			if g.used[n] {
				ks = append(ks, n)
			}
		}
		if len(ks) > 0 {
			return core.Pick(g.r, ks)
		}
	}
	return core.Pick(g.r, namePool)
}

func (g *pkgGen) add(d string) { g.decls = append(g.decls, d) }

func (g *pkgGen) genType() {
	n := g.fresh()
	switch k := g.r.Intn(10); {
	case k < 3:
		g.add(fmt.Sprintf("type %s struct{ f%s int }", n, n))
		g.types = append(g.types, n)
	case k < 4:
		g.add(fmt.Sprintf("type %s int", n))
		g.types = append(g.types, n)
	case k < 6:
		tp := g.shadow()
		if tp == n {
			tp = "E"
		}
		g.add(fmt.Sprintf("type %s[%s any] struct{ v %s }", n, tp, tp))
		g.generic = append(g.generic, n)
	case k < 7:
		g.add(fmt.Sprintf("type %s interface{ %s() }", n, core.Pick(g.r, namePool)))
	case k < 8 && len(g.types) > 0:
		g.add(fmt.Sprintf("type %s = %s", n, core.Pick(g.r, g.types)))
	case k < 9:
		n2 := g.fresh()
		g.add(fmt.Sprintf("type (\n\t%s int\n\t%s struct{}\n)", n, n2))
		g.types = append(g.types, n, n2)
	default:
		g.add(fmt.Sprintf("// %s is documented.\ntype %s []string", n, n))
		g.types = append(g.types, n)
	}
}

func (g *pkgGen) genMethods() {
	mnames := map[string]int{}
	mname := func(t string) string {
		mnames[t]++
		base := core.Pick(g.r, namePool) // may coincide with a package-level function or type name
		return fmt.Sprintf("%s%d", base, mnames[t])
	}
	for _, t := range g.types {
		for k := g.r.Intn(4); k > 0; k-- {
			if g.r.Bool() {
				g.add(fmt.Sprintf("func (%s) %s() {}", t, mname(t)))
			} else {
				g.add(fmt.Sprintf("func (r *%s) %s() { _ = r }", t, mname(t)))
			}
		}
		if g.r.Chance(12) { // receivers written through an alias
			a := g.fresh()
			g.add(fmt.Sprintf("type %s = %s", a, t))
			g.add(fmt.Sprintf("func (%s) %s() {}", a, mname(t)))
			if g.r.Bool() {
				g.add(fmt.Sprintf("func (*%s) %s() {}", a, mname(t)))
			}
		}
	}
	for _, t := range g.generic {
		for k := g.r.Intn(4); k > 0; k-- {
			tp := g.shadow() // the receiver's type parameter may be named like a package-level type
			if g.r.Bool() {
				g.add(fmt.Sprintf("func (r %s[%s]) %s() {}", t, tp, mname(t)))
			} else {
				g.add(fmt.Sprintf("func (r *%s[%s]) %s() {}", t, tp, mname(t)))
			}
		}
		if g.r.Chance(50) {
			v := g.fresh()
			if g.r.Bool() {
				g.add(fmt.Sprintf("var %s %s[int]", v, t))
			} else {
				g.add(fmt.Sprintf("var %s *%s[string]", v, t))
			}
		}
	}
}

func (g *pkgGen) genConst() {
	switch k := g.r.Intn(6); {
	case k < 3:
		n := g.fresh()
		g.add(fmt.Sprintf("const %s = %d", n, g.r.Intn(100)))
		g.consts = append(g.consts, n)
	case k < 5:
		n, n2 := g.fresh(), g.fresh()
		g.add(fmt.Sprintf("const (\n\t%s = iota\n\t%s\n\t_\n)", n, n2))
		g.consts = append(g.consts, n, n2)
	default:
		g.add("const _ = 0")
	}
}

func (g *pkgGen) body(excl ...string) string {
	var b []string
	for k := g.r.Intn(4); k > 0; k-- {
		switch g.r.Intn(6) {
		case 0:
			b = append(b, fmt.Sprintf("type %s struct{}", g.shadow()))
		case 1:
			b = append(b, fmt.Sprintf("const %s = %q", g.shadow(), "local"))
		case 2:
			n := g.shadow()
			b = append(b, fmt.Sprintf("%s := func() {}\n\t_ = %s", n, n))
		case 3:
			b = append(b, fmt.Sprintf("type %s interface{ %s() }", g.shadow(), g.shadow()))
		case 4:
			b = append(b, fmt.Sprintf("{\n\t\ttype %s int\n\t\tconst %s = 1.5\n\t}", g.shadow(), g.shadow()))
		default:
			n := g.shadow()
			b = append(b, fmt.Sprintf("var %s int\n\t_ = %s", n, n))
		}
	}
	// a block may declare the same local name twice: keep one declaration per name and kind of statement
	seen := map[string]bool{}
	for _, e := range excl {
		seen[e] = true
	}
	var out []string
	for _, s := range b {
		key := strings.Fields(s)[0] + " " + strings.Fields(s)[1]
		if strings.Contains(s, ":=") {
			key = "var " + strings.Fields(s)[0]
		}
		name := strings.Fields(key)[1]
		if seen[name] {
			continue
		}
		seen[name] = true
		out = append(out, s)
	}
	if len(out) == 0 {
		return "{}"
	}
	return "{\n\t" + strings.Join(out, "\n\t") + "\n}"
}

func (g *pkgGen) genFunc() {
	switch k := g.r.Intn(10); {
	case k < 4:
		n := g.fresh()
		g.add(fmt.Sprintf("func %s() %s", n, g.body()))
		g.funcs = append(g.funcs, n)
	case k < 7:
		n := g.fresh()
		tp := g.shadow()
		if tp == n {
			tp = "E"
		}
		g.add(fmt.Sprintf("func %s[%s any](x %s) %s", n, tp, tp, g.body(tp)))
		g.funcs = append(g.funcs, n)
	case k < 9:
		g.add(fmt.Sprintf("func init() %s", g.body()))
	default:
		g.add(fmt.Sprintf("func _() %s", g.body()))
	}
}

func genPkg(r *core.RNG, dir, name string, malformed bool) pkgIn {
	g := &pkgGen{r: r, used: map[string]bool{}}
	nT, nC, nF := 1+r.Intn(4), r.Intn(3), 1+r.Intn(4)
	for i := 0; i < nT; i++ {
		g.genType()
	}
	for i := 0; i < nC; i++ {
		g.genConst()
	}
	g.genMethods()
	for i := 0; i < nF; i++ {
		g.genFunc()
	}
	if r.Chance(30) {
		g.add(fmt.Sprintf("var %s = 1", g.fresh()))
	}
	if r.Chance(8) {
		g.add("type _ struct{}")
	}
	if malformed {
		switch r.Intn(4) {
		case 0: // redeclaration
			if len(g.types) > 0 {
				g.add(fmt.Sprintf("const %s = 2", g.types[0]))
			} else {
				g.add("type Dup int\ntype Dup string")
			}
		case 1: // undefined identifier
			g.add("var Broken = undefinedName + 1")
		case 2: // syntax error
			g.add("func (")
		default: // method on a type that does not exist
			g.add("func (NoSuchType) Q() {}")
		}
	}
	p := pkgIn{Dir: dir, Name: name}
	// split the declarations over one or two files
	if len(g.decls) > 3 && r.Chance(40) {
		cut := 1 + r.Intn(len(g.decls)-1)
		p.Files = []fileIn{{Name: "a.go", Decls: g.decls[:cut]}, {Name: "b.go", Decls: g.decls[cut:]}}
	} else {
		p.Files = []fileIn{{Name: "a.go", Decls: g.decls}}
	}
	// text outside the syntax tree's extent: above the package clause and behind the last declaration
	for i := range p.Files {
		if r.Chance(45) {
			p.Files[i].Head = core.Pick(r, fileHeads)
		}
		if r.Chance(35) {
			p.Files[i].Tail = core.Pick(r, fileTails)
		}
	}
	if !malformed && r.Chance(25) { // a doc.go that holds nothing but the package doc and generator tags
		p.Files = append(p.Files, fileIn{Name: "doc.go", Head: "// +gengo:deepcopy=true\n// +gengo:enum\n\n// Package " + name + " is documented in a file of its own.\n"})
	}
	return p
}

var fileHeads = []string{
	"// Package doc: one line.\n",
	"//go:build !ignore_this_file\n\n",
	"//go:build !ignore_this_file\n\n// +gengo:deepcopy=true\n// Package doc with a tag line above it.\n",
	"/*\nA block comment\nover several lines, detached from the package clause.\n*/\n\n",
	"// Copyright notice, detached.\n\n// Package doc.\n//\n// Second paragraph.\n",
	"\n\n\n",
	"// Code generated by hand. DO NOT EDIT.\n\n",
}

var fileTails = []string{
	"// a trailing comment behind the last declaration\n",
	"/* the end */\n",
	"\n\n// EOF\n// (two lines)\n",
	"// no newline at the end of the file",
	"\n\n\n",
}

var pkgDirs = []struct{ dir, name string }{{"", "m"}, {"a", "a"}, {"b", "b"}, {"a/c", "c"}, {"internal/d", "d"}}

func genModule(r *core.RNG, malformed bool) input {
	in := input{Procs: 3, Loads: 2}
	n := 1
	if r.Chance(60) {
		n = 2 + r.Intn(len(pkgDirs)-1)
	}
	badPkg := -1
	if malformed {
		badPkg = r.Intn(n)
	}
	for i := 0; i < n; i++ {
		in.Pkgs = append(in.Pkgs, genPkg(r.Fork(), pkgDirs[i].dir, pkgDirs[i].name, i == badPkg && r.Chance(70)))
	}
	// package i may import package j > i (acyclic); package 0 is the top
	for i := 0; i < n; i++ {
		for j := i + 1; j < n; j++ {
			if r.Chance(55) {
				in.Pkgs[i].Imports = append(in.Pkgs[i].Imports, modPath+"/"+in.Pkgs[j].Dir)
			}
		}
		if r.Chance(10) {
			// std packages are type-checked from source on every load: fewer loads for these
			// (crypto/x509, net/textproto ...: closures with vendored golang.org/x packages imported by >= 2 packages)
			in.Pkgs[i].Imports = append(in.Pkgs[i].Imports, core.Pick(r, []string{"errors", "unsafe", "sort", "unicode/utf8", "errors", "sort", "crypto/x509", "mime/multipart"}))
			in.Procs, in.Loads = 2, 1
		}
	}
	if malformed && r.Chance(30) {
		switch r.Intn(3) {
		case 0:
			in.Pkgs[badPkg].Imports = append(in.Pkgs[badPkg].Imports, modPath+"/nosuchpkg")
		case 1:
			if n > 1 { // import cycle
				in.Pkgs[n-1].Imports = append(in.Pkgs[n-1].Imports, modPath)
				in.Pkgs[0].Imports = append(in.Pkgs[0].Imports, modPath+"/"+in.Pkgs[n-1].Dir)
			}
		default:
			in.Pkgs[badPkg].Files = append(in.Pkgs[badPkg].Files, fileIn{Name: "other.go", Decls: []string{"// wrong package clause follows\npackage"}})
		}
	}
	switch k := r.Intn(10); {
	case k < 4 || n == 1:
		in.Roots = []string{"./..."}
		if r.Chance(30) {
			in.Roots = []string{"."}
		}
	case k < 7:
		in.Roots = []string{"."}
	case k < 8:
		in.Roots = []string{"./" + in.Pkgs[1+r.Intn(n-1)].Dir}
	default:
		in.Roots = []string{".", "./" + in.Pkgs[1+r.Intn(n-1)].Dir}
		if r.Bool() {
			in.Roots[0], in.Roots[1] = in.Roots[1], in.Roots[0]
		}
	}
	if r.Chance(4) {
		k := r.Intn(len(in.Pkgs))
		f := &in.Pkgs[k].Files[0]
		if r.Bool() {
			f.Decls = append(f.Decls, "//line /nonexistent/gen/parser.y:10\nfunc Generated() {}")
		} else {
			f.Decls = append(f.Decls, "//line renamed.go:10\nfunc Renamed() {}")
		}
	}
	return in
}

func fixedCases() []input {
	one := func(note string, roots []string, pkgs ...pkgIn) input {
		return input{Pkgs: pkgs, Roots: roots, Procs: 4, Loads: 2, Note: note}
	}
	pk := func(dir, name string, imports []string, decls ...string) pkgIn {
		return pkgIn{Dir: dir, Name: name, Imports: imports, Files: []fileIn{{Name: "a.go", Decls: decls}}}
	}
	return []input{
		one("local type, type parameter shadowing a package-level type, local constant shadowing a package-level one", nil,
			pk("", "m", nil, "type T struct{}", "const K = 1", "func F[T any](x T) {\n\ttype L struct{}\n\tconst K = \"local\"\n}", "func H() {\n\ttype T int\n}")),
		one("generic receivers, pointer and value", nil,
			pk("", "m", nil, "type G[E any] struct{ v E }", "func (g *G[E]) P() {}", "func (g G[X]) V() {}", "var Y G[int]", "type T int", "func (T) TV() {}", "func (*T) TP() {}")),
		one("imports, root package only", []string{"."},
			pk("", "m", []string{modPath + "/a", modPath + "/b"}, "const K = 1"),
			pk("a", "a", []string{modPath + "/b"}, "const A = 1"),
			pk("b", "b", nil, "const B = 1")),
		one("imports, every package a root", []string{"./..."},
			pk("", "m", []string{modPath + "/a", modPath + "/b"}, "const K = 1"),
			pk("a", "a", []string{modPath + "/b"}, "const A = 1"),
			pk("b", "b", nil, "const B = 1")),
		one("receivers written through aliases", nil,
			pk("", "m", nil, "type T struct{}", "type A = T", "type PA = *T", "func (A) AM() {}", "func (*A) APM() {}", "func (PA) PAM() {}", "func (T) TV() {}")),
		one("interfaces, embedded and generic; init and blank functions; blank type and constant", nil,
			pk("", "m", nil, "type I interface{ M() }", "type J interface {\n\tI\n\tN()\n}", "type GI[X any] interface{ Q(X) }",
				"func init() {}", "func init() {}", "func _() {}", "type _ struct{}", "const _ = 2", "var _ = 3")),
		one("grouped declarations over two files, methods in the other file", nil,
			pkgIn{Dir: "", Name: "m", Files: []fileIn{
				{Name: "a.go", Decls: []string{"type (\n\tA int\n\tB struct{ A }\n)", "const (\n\tK0 = iota\n\tK1\n)"}},
				{Name: "b.go", Decls: []string{"func (A) M() {}", "func (b *B) M() {}", "func M() {\n\tvar K0 string\n\t_ = K0\n}"}}}}),
		{Note: "a std import: packages outside the module are part of the universe", Roots: []string{"."}, Procs: 2, Loads: 1, Pkgs: []pkgIn{
			pk("", "m", []string{"errors", modPath + "/a"}, "type T struct{}"),
			pk("a", "a", []string{"unicode/utf8"}, "const A = 1")}},
		{Note: "a dependency used through a replace directive (local checkout): SourceDir / LocateInPackage of its packages", Roots: []string{"./..."}, Procs: 2, Loads: 1,
			Pkgs: []pkgIn{pk("", "m", []string{depPath, depPath + "/sub"}, "type T struct{}")},
			Dep:  []pkgIn{pk("", "dep", []string{depPath + "/sub"}, "type D struct{}", "func (D) M() {}"), pk("sub", "sub", nil, "const S = 1", "type U int")}},
		{Note: "positions above the package clause and behind the last declaration: file doc, build constraint, tag comments, doc.go without declarations, trailing comments (two packages, so that the wrong package can be named)",
			Roots: []string{"./..."}, Procs: 2, Loads: 1, Pkgs: []pkgIn{
				{Dir: "", Name: "m", Imports: []string{modPath + "/sub"}, Files: []fileIn{
					{Name: "a.go", Head: "//go:build !ignore_this_file\n\n// Copyright.\n\n", Decls: []string{"type T struct{}", "func F() {}"}, Tail: "// trailing comment\n\n/* and a block */\n"},
					{Name: "doc.go", Head: "// +gengo:deepcopy=true\n// +gengo:enum\n\n// Package m is documented here.\n"},
					{Name: "empty.go"}}},
				{Dir: "sub", Name: "sub", Files: []fileIn{
					{Name: "sub.go", Head: "// Package sub.\n", Decls: []string{"const S = 1"}, Tail: "// the end"}}}}},
		{Note: "std's vendored packages (import path golang.org/x/..., PkgPath vendor/golang.org/x/...) imported by several packages each: every Imports() entry of every package of the universe is the universe's Package (object identity)",
			Roots: []string{"."}, Procs: 2, Loads: 1, Pkgs: []pkgIn{pk("", "m", []string{"net/http", "crypto/tls"}, "type T struct{}")}},
		one("//line directive naming a file in the same directory", nil,
			pk("", "m", nil, "type T struct{}", "//line renamed.go:10\nfunc Renamed() {}")),
		one("//line directive naming a file in a foreign directory (known finding)", nil,
			pk("", "m", nil, "type T struct{}", "//line /nonexistent/gen/parser.y:10\nfunc Generated() {}")),
	}
}

func (prop) Generate(r *core.RNG, tier string) []json.RawMessage {
	n := 26
	if tier == "thorough" {
		n = 420
	}
	var out []json.RawMessage
	add := func(in input) {
		b, _ := json.Marshal(in)
		out = append(out, b)
	}
	for _, in := range fixedCases() {
		add(in)
	}
	for i := 0; i < n; i++ {
		in := genModule(r.Fork(), r.Chance(10))
		if tier == "thorough" && in.Loads > 1 {
			in.Procs = 4
		}
		add(in)
	}
	if tier == "thorough" {
		// one universe in which a vendored std package (import path != PkgPath) is imported by two packages:
		// crypto/ecdsa and vendor/golang.org/x/crypto/cryptobyte both import golang.org/x/crypto/cryptobyte/asn1
		add(input{Pkgs: []pkgIn{{Dir: "", Name: "m", Imports: []string{"crypto/ecdsa"}, Files: []fileIn{{Name: "a.go", Decls: []string{"type T struct{}"}}}}},
			Roots: []string{"."}, Procs: 4, Loads: 1, Note: "a vendored std package imported by two packages (crypto/ecdsa, vendor/golang.org/x/crypto/cryptobyte -> cryptobyte/asn1)"})
	}
	return out
}

// Shrink: drop a package, a file, a declaration, an import; fewer roots; fewer processes.
func (prop) Shrink(raw json.RawMessage) []json.RawMessage {
	var in input
	_ = json.Unmarshal(raw, &in)
	var out []json.RawMessage
	add := func(c input) {
		b, _ := json.Marshal(c)
		if string(b) != string(raw) {
			out = append(out, b)
		}
	}
	clone := func() input {
		var c input
		b, _ := json.Marshal(in)
		_ = json.Unmarshal(b, &c)
		return c
	}
	for i := range in.Pkgs {
		if in.Pkgs[i].Dir == "" {
			continue
		}
		c := clone()
		gone := modPath + "/" + c.Pkgs[i].Dir
		c.Pkgs = append(c.Pkgs[:i], c.Pkgs[i+1:]...)
		for k := range c.Pkgs {
			var imps []string
			for _, s := range c.Pkgs[k].Imports {
				if s != gone {
					imps = append(imps, s)
				}
			}
			c.Pkgs[k].Imports = imps
		}
		var roots []string
		for _, rt := range c.Roots {
			if rt != "./"+in.Pkgs[i].Dir {
				roots = append(roots, rt)
			}
		}
		c.Roots = roots
		add(c)
	}
	for i := range in.Pkgs {
		for f := range in.Pkgs[i].Files {
			if len(in.Pkgs[i].Files) > 1 {
				c := clone()
				c.Pkgs[i].Files = append(c.Pkgs[i].Files[:f], c.Pkgs[i].Files[f+1:]...)
				add(c)
			}
			if in.Pkgs[i].Files[f].Head != "" {
				c := clone()
				c.Pkgs[i].Files[f].Head = ""
				add(c)
			}
			if in.Pkgs[i].Files[f].Tail != "" {
				c := clone()
				c.Pkgs[i].Files[f].Tail = ""
				add(c)
			}
			ds := in.Pkgs[i].Files[f].Decls
			if len(ds) > 3 {
				c := clone()
				c.Pkgs[i].Files[f].Decls = c.Pkgs[i].Files[f].Decls[:len(ds)/2]
				add(c)
				c = clone()
				c.Pkgs[i].Files[f].Decls = c.Pkgs[i].Files[f].Decls[len(ds)/2:]
				add(c)
			}
			for d := range ds {
				if len(ds) == 1 && len(in.Pkgs[i].Files) == 1 {
					continue
				}
				c := clone()
				c.Pkgs[i].Files[f].Decls = append(c.Pkgs[i].Files[f].Decls[:d], c.Pkgs[i].Files[f].Decls[d+1:]...)
				add(c)
			}
		}
		for k := range in.Pkgs[i].Imports {
			c := clone()
			c.Pkgs[i].Imports = append(c.Pkgs[i].Imports[:k], c.Pkgs[i].Imports[k+1:]...)
			add(c)
		}
	}
	if len(in.Roots) > 1 {
		for k := range in.Roots {
			c := clone()
			c.Roots = append(c.Roots[:k], c.Roots[k+1:]...)
			add(c)
		}
	}
	if in.Note != "" {
		c := clone()
		c.Note = ""
		add(c)
	}
	return out
}

// Extra: the dependency closure of the repository's own module, checked with the Go-side predicate.
func (prop) Extra(r *core.RNG, tier string, scratch string) (violations []string, notes []string, stats map[string]any) {
	stats = map[string]any{}
	repo := os.Getenv("VERIF_REPO")
	if repo == "" {
		repo = "/repo"
	}
	n := 1
	if tier == "thorough" {
		n = 3
	}
	for k := 0; k < n; k++ {
		co, err := runChild(filepath.Join(scratch, fmt.Sprintf("sweep%d.json", k)), "sweep", repo, 1, []string{"./..."}, 600*time.Second)
		if err != nil {
			violations = append(violations, "closure sweep: "+err.Error())
			return
		}
		if co.LoadErr != "" || co.Sweep == nil {
			violations = append(violations, "closure sweep: the repository's own module does not load: "+co.LoadErr)
			return
		}
		sw := co.Sweep
		stats["closure_packages"] = sw.Packages
		stats["closure_objects"] = sw.Objects
		stats["closure_sweeps"] = k + 1
		for _, f := range sw.Facts {
			notes = append(notes, "closure sweep, trusted-base test failed: "+f)
		}
		if len(sw.Counts) > 0 {
			var parts []string
			for kind, c := range sw.Counts {
				parts = append(parts, fmt.Sprintf("%s=%d", kind, c))
			}
			ex := sw.Examples
			if len(ex) > 6 {
				ex = ex[:6]
			}
			violations = append(violations, fmt.Sprintf("closure sweep of %s ./... (%d packages): failures by kind %s; e.g. %s",
				repo, sw.Packages, strings.Join(parts, " "), strings.Join(ex, " | ")))
			return
		}
	}
	return
}
