package c13

// The property's sentence evaluated on the Go side (the same predicate as Corr/C13.v `holds`):
// used for the whole-closure sweep of a real module (too large to ship to Coq) and to label
// failing synthetic cases with the kind of failure.

import (
	"fmt"
	"sort"
)

type finding struct {
	Kind string // scope | methods | imports | source_dir | locate
	Msg  string
}

type sweepOut struct {
	Packages int            `json:"packages"`
	Objects  int            `json:"objects"`
	Counts   map[string]int `json:"counts"`
	Examples []string       `json:"examples"`
	Facts    []string       `json:"facts,omitempty"`
}

func (s *sweepOut) add(kind, msg string) {
	s.Counts[kind]++
	if len(s.Examples) < 40 {
		s.Examples = append(s.Examples, kind+": "+msg)
	}
}

func exempt(kind, name string) bool { return kind == "func" && (name == "init" || name == "_") }

func pkgFindings(d *pkgData, o *pkgObs) []finding {
	var out []finding
	add := func(k, f string, a ...any) { out = append(out, finding{k, d.Path + ": " + fmt.Sprintf(f, a...)}) }
	if o.Nil {
		add("universe", "Universe.Package returns nil")
		return out
	}
	if !d.Syntax {
		return nil // guard: packages without syntax (unsafe) have no Defs
	}
	scope := map[lookupQ]int{}
	for _, e := range d.Scope {
		scope[lookupQ{e.Kind, e.Name}] = e.ID
	}
	tables := []struct {
		kind string
		acc  string
		t    []tblEnt
	}{{"type", "Types()", o.Types}, {"const", "Constants()", o.Consts}, {"func", "Functions()", o.Funcs}}
	for _, tb := range tables {
		have := map[string]int{}
		for _, e := range tb.t {
			have[e.Name] = e.ID
			if exempt(tb.kind, e.Name) {
				continue
			}
			if id, ok := scope[lookupQ{tb.kind, e.Name}]; !ok {
				add("scope", "%s has %q (object #%d) which is not a package-scope %s", tb.acc, e.Name, e.ID, tb.kind)
			} else if id != e.ID {
				add("scope", "%s[%q] is object #%d, the package scope has #%d", tb.acc, e.Name, e.ID, id)
			}
		}
		for _, e := range d.Scope {
			if e.Kind == tb.kind && !exempt(e.Kind, e.Name) {
				if _, ok := have[e.Name]; !ok {
					add("scope", "%s lacks the package-scope %s %q", tb.acc, e.Kind, e.Name)
				}
			}
		}
	}
	for _, l := range o.Lookups {
		if exempt(l.Kind, l.Name) {
			continue
		}
		id, ok := scope[lookupQ{l.Kind, l.Name}]
		switch {
		case ok && l.ID == nil:
			add("scope", "%s(%q) is nil, the package scope has #%d", l.Kind, l.Name, id)
		case ok && *l.ID != id:
			add("scope", "%s(%q) is object #%d, the package scope has #%d", l.Kind, l.Name, *l.ID, id)
		case !ok && l.ID != nil:
			add("scope", "%s(%q) is object #%d, the package scope has no such %s", l.Kind, l.Name, *l.ID, l.Kind)
		}
	}
	if len(o.Methods) != len(d.Queries) {
		add("methods", "number of MethodsOf observations")
	} else {
		for i, q := range d.Queries {
			if q.Iface {
				continue
			}
			var all, val []int
			for _, m := range q.Declared {
				all = append(all, m.ID)
				if !m.Ptr {
					val = append(val, m.ID)
				}
			}
			sort.Ints(all)
			sort.Ints(val)
			// the property is about the SET of methods (the order is the model's concern)
			gotAll := append([]int(nil), o.Methods[i][0]...)
			gotVal := append([]int(nil), o.Methods[i][1]...)
			sort.Ints(gotAll)
			sort.Ints(gotVal)
			if !intsEq(all, gotAll) {
				add("methods", "MethodsOf(%s, true) = %v, declared methods %v", q.Label, o.Methods[i][0], all)
			}
			if !intsEq(val, gotVal) {
				add("methods", "MethodsOf(%s, false) = %v, declared value-receiver methods %v", q.Label, o.Methods[i][1], val)
			}
		}
	}
	if d.Mod != nil {
		if o.SourceDir != d.Dir {
			add("source_dir", "SourceDir() = %q, files are in %q", o.SourceDir, d.Dir)
		}
		for i, l := range o.Locate {
			if l == nil {
				add("locate", "LocateInPackage(position %d, file name in %q) = nil", i, d.Probes[i])
			} else if *l != d.Path {
				add("locate", "LocateInPackage(position %d, file name in %q) = %s", i, d.Probes[i], *l)
			}
		}
	}
	return out
}

func importFindings(nd uNode, imps []impEnt) []finding {
	var out []finding
	have := map[string]impEnt{}
	for _, e := range imps {
		have[e.Key] = e
	}
	if len(imps) != len(nd.Imports) {
		out = append(out, finding{"imports", fmt.Sprintf("%s: Imports() has %d entries, the package imports %d paths", nd.Path, len(imps), len(nd.Imports))})
	}
	for _, kt := range nd.Imports {
		e, ok := have[kt[0]]
		switch {
		case !ok:
			out = append(out, finding{"imports", fmt.Sprintf("%s: Imports() lacks %q", nd.Path, kt[0])})
		case !e.NonNil:
			out = append(out, finding{"imports", fmt.Sprintf("%s: Imports()[%q] is nil", nd.Path, kt[0])})
		case !e.Same:
			out = append(out, finding{"imports", fmt.Sprintf("%s: Imports()[%q] is not Universe.Package(%q)", nd.Path, kt[0], kt[1])})
		}
	}
	return out
}

func sweepPkg(s *sweepOut, d *pkgData, o *pkgObs) {
	for _, f := range pkgFindings(d, o) {
		s.add(f.Kind, f.Msg)
	}
}

func sweepImports(s *sweepOut, nd uNode, imps []impEnt) {
	for _, f := range importFindings(nd, imps) {
		s.add(f.Kind, f.Msg)
	}
}

func intsEq(a, b []int) bool {
	if len(a) != len(b) {
		return false
	}
	for i := range a {
		if a[i] != b[i] {
			return false
		}
	}
	return true
}
