package c18

import (
	"bytes"
	"context"
	"encoding/json"
	"fmt"
	"os"
	"os/exec"
	"path/filepath"
	"runtime/debug"
	"sort"
	"strings"
	"sync"
	"time"

	_ "github.com/octohelm/gengo/devpkg/partialstruct"
	"github.com/octohelm/gengo/pkg/gengo"

	"verifharness/internal/core"
)

type prop struct{}

func init() {
	core.Register(prop{})
	core.Children["c18-gen"] = childGen
}

func (prop) ID() string        { return "C18" }
func (prop) CoqModule() string { return "Gengo.Corr.C18" }
func (prop) Parallel() int     { return 12 }

// notes of the out-of-domain stream, collected across Run calls and reported once per invocation (core.Extra)
var (
	notesMu    sync.Mutex
	notesSeen  = map[string]int{}
	notesFirst = map[string]string{}
)

func addNote(kind, example string) {
	notesMu.Lock()
	defer notesMu.Unlock()
	notesSeen[kind]++
	if _, ok := notesFirst[kind]; !ok {
		notesFirst[kind] = example
	}
}

// Extra reports what was observed outside the generator's domain (never a violation).
func (prop) Extra(_ *core.RNG, _ string, _ string) ([]string, []string, map[string]any) {
	notesMu.Lock()
	defer notesMu.Unlock()
	var kinds []string
	for k := range notesSeen {
		kinds = append(kinds, k)
	}
	sort.Strings(kinds)
	var notes []string
	stats := map[string]any{}
	for _, k := range kinds {
		notes = append(notes, fmt.Sprintf("outside the generator's domain [%s] (%d case(s)): %s", k, notesSeen[k], notesFirst[k]))
		stats["out_of_domain:"+k] = notesSeen[k]
	}
	return nil, notes, stats
}

const knownClass = "import_name_shadows_template_local"
const knownClassIface = "unnamed_method_interface_rendered_any"
const knownClassNestedAlias = "nested_alias_of_unnameable_type"

// ---- the supervised child: the real generator through gengo.NewContext + Execute ----

type genResult struct {
	Stage string `json:"stage"` // newctx | exec | ok
	Err   string `json:"err,omitempty"`
}

func childGen(args []string) int {
	debug.SetMaxStack(256 << 20)
	dir := args[0]
	if err := os.Chdir(dir); err != nil {
		return 3
	}
	write := func(r genResult) {
		b, _ := json.Marshal(r)
		_ = os.WriteFile(filepath.Join(dir, ".c18.json"), b, 0o644)
	}
	c, err := gengo.NewContext(&gengo.GeneratorArgs{
		Entrypoint:         []string{"./target"},
		OutputFileBaseName: "zz_generated",
		Force:              true,
	})
	if err != nil {
		write(genResult{Stage: "newctx", Err: err.Error()})
		return 0
	}
	if err := c.Execute(context.Background(), gengo.GetRegisteredGenerators("partialstruct")...); err != nil {
		write(genResult{Stage: "exec", Err: err.Error()})
		return 0
	}
	write(genResult{Stage: "ok"})
	return 0
}

func runCmd(dir string, timeout time.Duration, name string, args ...string) (string, error) {
	ctx, cancel := context.WithTimeout(context.Background(), timeout)
	defer cancel()
	cmd := exec.CommandContext(ctx, name, args...)
	cmd.Dir = dir
	cmd.Env = append(os.Environ(), "GOFLAGS=-mod=mod", "GOPROXY=off")
	var out bytes.Buffer
	cmd.Stdout, cmd.Stderr = &out, &out
	err := cmd.Run()
	if ctx.Err() != nil {
		return out.String(), fmt.Errorf("timeout")
	}
	return out.String(), err
}

// outcome of the generator run: ok | must_struct | need_named | parse | other | crash | timeout | load
func runGen(dir string) (string, string) {
	_ = os.Remove(filepath.Join(dir, ".c18.json"))
	exe, _ := os.Executable()
	out, err := runCmd(dir, 120*time.Second, exe, "c18-gen", dir)
	if err != nil && err.Error() == "timeout" {
		return "timeout", ""
	}
	data, rerr := os.ReadFile(filepath.Join(dir, ".c18.json"))
	if rerr != nil {
		msg := ""
		for _, l := range strings.Split(out, "\n") {
			if strings.HasPrefix(l, "panic:") || strings.HasPrefix(l, "fatal error:") || strings.HasPrefix(l, "[signal") {
				msg += l + " "
			}
		}
		return "crash", strings.TrimSpace(msg)
	}
	_ = os.Remove(filepath.Join(dir, ".c18.json"))
	var r genResult
	_ = json.Unmarshal(data, &r)
	switch {
	case r.Stage == "ok":
		return "ok", ""
	case r.Stage == "newctx":
		return "load", r.Err
	case strings.Contains(r.Err, "must be struct type"):
		return "must_struct", r.Err
	case strings.Contains(r.Err, "need to define type like"):
		return "need_named", r.Err
	case strings.Contains(r.Err, "zz_generated.partialstruct.go:"):
		return "parse", r.Err
	}
	return "other", r.Err
}

func sanitize(s string, dir string) string {
	s = strings.ReplaceAll(s, dir, "<m>")
	if len(s) > 300 {
		s = s[:300] + "…"
	}
	return s
}

func firstErrorLine(out string) string {
	for _, l := range strings.Split(out, "\n") {
		if strings.Contains(l, ".go:") {
			// drop line:col, keep the message
			if i := strings.Index(l, ": "); i >= 0 {
				l = strings.TrimSpace(l[i+2:])
			}
			if i := strings.Index(l, " (/"); i >= 0 { // environment-specific paths
				l = l[:i]
			}
			return l
		}
	}
	return strings.TrimSpace(out)
}

// ---- what the reflect program reports ----

type fieldInfo struct {
	Name     string `json:"name"`
	Type     string `json:"type"`
	Tag      string `json:"tag"`
	Embedded bool   `json:"embedded,omitempty"`
}

type runInfo struct {
	Seed           int      `json:"seed"`
	Panic          string   `json:"panic,omitempty"`
	NilResult      bool     `json:"nil_result,omitempty"`
	RetainedDiff   []string `json:"retained_diff,omitempty"`
	OmittedNonZero []string `json:"omitted_nonzero,omitempty"`
	ReplacedDiff   []string `json:"replaced_diff,omitempty"`
	Unchecked      []string `json:"unchecked,omitempty"`
}

type typeInfo struct {
	Name         string      `json:"name"`
	GenFields    []fieldInfo `json:"gen_fields"`
	OriginFields []fieldInfo `json:"origin_fields"`
	OriginType   string      `json:"origin_type"`
	ResultType   string      `json:"result_type"`
	NilOK        bool        `json:"nil_ok"`
	Runs         []runInfo   `json:"runs"`
}

type observed struct {
	Outcome  string     `json:"outcome"`
	Err      string     `json:"err,omitempty"`
	Expected string     `json:"expected"`
	InDomain bool       `json:"in_domain"`
	File     *ObsFile   `json:"file,omitempty"`
	Build    string     `json:"build,omitempty"` // ok | first compiler error | skipped
	Reflect  []typeInfo `json:"reflect,omitempty"`
}

func (in *Input) normalize() {
	if in.OriginPkg == "" {
		in.OriginPkg = "origin"
	}
	if in.LibPkg == "" || in.LibPkg == in.OriginPkg {
		in.LibPkg = "lib"
		if in.OriginPkg == "lib" {
			in.LibPkg = "util"
		}
	}
	if !usableDeclName(in.OriginDecl) || in.OriginDecl == in.OriginPkg {
		in.OriginDecl = ""
	}
	if !usableDeclName(in.LibDecl) || in.LibDecl == in.LibPkg {
		in.LibDecl = ""
	}
	// one declaration per alias name: the first right-hand side met counts; aliases live in the origin package
	first := map[string]*Ty{}
	for t := range in.Types {
		for f := range in.Types[t].Fields {
			in.Types[t].Fields[f].Ty.aliases(func(a *Ty) {
				a.Pkg = "origin"
				if a.Elem == nil {
					a.Elem = &Ty{K: "basic", Name: "int"}
				}
				if d, ok := first[a.Name]; ok {
					if d != a {
						cp := *d.Elem
						a.Elem = &cp
					}
				} else {
					first[a.Name] = a
				}
			})
		}
	}
	for g := range in.Groups {
		for i := range in.Groups[g].Specs {
			s := &in.Groups[g].Specs[i]
			for k := range s.Omit {
				// a comment line loses its trailing white space (ast.CommentGroup.Text) before the tags are read
				s.Omit[k] = strings.TrimRight(strings.ReplaceAll(s.Omit[k], "\n", ""), " \t")
			}
			for k := range s.Replace {
				s.Replace[k] = strings.TrimRight(strings.ReplaceAll(s.Replace[k], "\n", ""), " \t")
			}
			if s.Origin < 0 || s.Origin >= len(in.Types) {
				s.Origin = 0
			}
			if s.Enabled == "" {
				s.Enabled = "plain"
			}
		}
	}
}

// the enabled declarations in the order the generator visits them: the i-th generated type belongs to the i-th
// (the property does not fix how the generated type is named)
func (in *Input) enabledSorted() []*Spec {
	var out []*Spec
	for _, fs := range in.sorted() {
		if fs.S.enabled() {
			out = append(out, fs.S)
		}
	}
	return out
}

// reflectViolations: the property's sentence on the compiled artefact, decided from the input and the reflect report only
func reflectViolations(in *Input, tis []typeInfo) (viol []string) {
	en := in.enabledSorted()
	if len(en) != len(tis) {
		return []string{fmt.Sprintf("%d types generated for %d enabled declarations", len(tis), len(en))}
	}
	for k, ti := range tis {
		s := en[k]
		wantOrigin := pkgPathOf(in, "origin") + "." + in.Types[s.Origin].Name
		if s.RHS == "local" {
			wantOrigin = pkgPathOf(in, "target") + "." + localName(&in.Types[s.Origin])
		}
		if ti.OriginType != wantOrigin || ti.ResultType != "*"+wantOrigin {
			viol = append(viol, fmt.Sprintf("%s.DeepCopyAs returns %s, the declaration's origin is %s", ti.Name, ti.ResultType, wantOrigin))
			continue
		}
		omit := map[string]bool{}
		for _, o := range s.Omit {
			omit[o] = true
		}
		repl := parseReplace(s.Replace)
		var want []fieldInfo
		replaced := map[string]bool{}
		for _, f := range ti.OriginFields {
			if omit[f.Name] {
				continue
			}
			w := fieldInfo{Name: f.Name, Type: f.Type, Tag: f.Tag}
			if r, ok := repl[f.Name]; ok {
				replaced[f.Name] = true
				switch {
				case strings.Contains(r[0], ".") && !strings.Contains(r[0], "["):
					w.Type = r[0]
				case rawIsIdent(r[0]) && r[0] != "" && r[0][0] >= 'A' && r[0][0] <= 'Z':
					w.Type = pkgPathOf(in, "target") + "." + r[0]
				default:
					w.Type = "" // not compared
				}
				if len(r) > 1 {
					w.Tag = strings.Join(r[1:], " ")
				}
			}
			want = append(want, w)
		}
		if len(want) != len(ti.GenFields) {
			viol = append(viol, fmt.Sprintf("%s has %d fields, the origin has %d that are not omitted", ti.Name, len(ti.GenFields), len(want)))
			continue
		}
		for i := range want {
			g := ti.GenFields[i]
			if g.Name != want[i].Name {
				viol = append(viol, fmt.Sprintf("%s field %d is %s, origin order gives %s", ti.Name, i, g.Name, want[i].Name))
			} else if want[i].Type != "" && g.Type != want[i].Type {
				viol = append(viol, fmt.Sprintf("%s.%s has type %s, expected %s", ti.Name, g.Name, g.Type, want[i].Type))
			} else if g.Tag != want[i].Tag {
				viol = append(viol, fmt.Sprintf("%s.%s has tag %q, expected %q", ti.Name, g.Name, g.Tag, want[i].Tag))
			}
		}
		if !ti.NilOK {
			viol = append(viol, ti.Name+": DeepCopyAs on nil does not return nil")
		}
		for _, r := range ti.Runs {
			switch {
			case r.Panic != "":
				viol = append(viol, fmt.Sprintf("%s: DeepCopyAs panicked (fill seed %d): %s", ti.Name, r.Seed, r.Panic))
			case r.NilResult:
				viol = append(viol, fmt.Sprintf("%s: DeepCopyAs on a non-nil value returned nil", ti.Name))
			case len(r.RetainedDiff) > 0:
				viol = append(viol, fmt.Sprintf("%s: retained fields differ after DeepCopyAs (fill seed %d): %v", ti.Name, r.Seed, r.RetainedDiff))
			case len(r.OmittedNonZero) > 0:
				viol = append(viol, fmt.Sprintf("%s: omitted fields are not zero after DeepCopyAs (fill seed %d): %v", ti.Name, r.Seed, r.OmittedNonZero))
			case len(r.ReplacedDiff) > 0:
				viol = append(viol, fmt.Sprintf("%s: replaced fields differ from the replacement's own copy (fill seed %d): %v", ti.Name, r.Seed, r.ReplacedDiff))
			}
		}
	}
	if len(viol) > 4 {
		viol = viol[:4]
	}
	return viol
}

func (prop) Run(raw json.RawMessage, scratch string) core.Result {
	var in Input
	var res core.Result
	if err := json.Unmarshal(raw, &in); err != nil || len(in.Types) == 0 || len(in.Groups) == 0 {
		res.Notes = append(res.Notes, "unusable input")
		res.Tags = append(res.Tags, "unusable_input")
		return res
	}
	in.normalize()
	dir := filepath.Join(scratch, "m")
	if err := writeModule(&in, dir); err != nil {
		res.Notes = append(res.Notes, "cannot write module: "+err.Error())
		return res
	}
	genFile := filepath.Join(dir, "target", "zz_generated.partialstruct.go")

	obs := observed{Expected: in.expectedOutcome(), InDomain: true}
	var domainNotes []string
	for _, fs := range in.flat() {
		s := fs.S
		if s.enabled() && (s.RHS == "sel" || s.RHS == "local") && in.Types[s.Origin].NonStruct == "" {
			for _, w := range in.outOfDomain(s) {
				obs.InDomain = false
				domainNotes = append(domainNotes, w)
			}
		}
	}
	obs.Outcome, obs.Err = runGen(dir)
	obs.Err = sanitize(obs.Err, dir)

	// an input module that is not valid Go by itself is a harness problem, never a finding
	invalidInput := func() bool {
		_ = os.Rename(genFile, genFile+".off")
		_ = os.RemoveAll(filepath.Join(dir, "cmd"))
		out, err := runCmd(dir, 180*time.Second, "go", "build", "./...")
		_ = os.Rename(genFile+".off", genFile)
		if err != nil {
			res.Notes = append(res.Notes, "input module does not compile by itself: "+sanitize(firstErrorLine(out), dir))
			res.Tags = append(res.Tags, "invalid_input_module")
			return true
		}
		return false
	}
	if obs.Outcome == "load" {
		res.Notes = append(res.Notes, "packages.Load failed: "+obs.Err)
		res.Tags = append(res.Tags, "invalid_input_module")
		res.Observed = obs
		return res
	}

	_, statErr := os.Stat(genFile)
	fileWritten := statErr == nil
	if fileWritten {
		of, err := abstractFile(genFile, in.declNameOfPath)
		if err != nil {
			res.GoViolations = append(res.GoViolations, "the written file does not parse: "+sanitize(err.Error(), dir))
		} else {
			obs.File = of
		}
	}

	var viol []string
	switch {
	case obs.Expected != "ok":
		// "reported as an error rather than generating code"
		if !(obs.Outcome == "must_struct" || obs.Outcome == "need_named") {
			viol = append(viol, fmt.Sprintf("a declaration that is not a struct defined from a named type was not reported as an error (outcome %s %s)", obs.Outcome, obs.Err))
		}
		if fileWritten {
			viol = append(viol, "an error was due but a file was generated")
		}
	case obs.Outcome != "ok":
		viol = append(viol, fmt.Sprintf("Execute failed on a valid declaration: %s: %s", obs.Outcome, obs.Err))
	default:
		anyEnabled := false
		for _, fs := range in.flat() {
			anyEnabled = anyEnabled || fs.S.enabled()
		}
		if anyEnabled && !fileWritten {
			viol = append(viol, "no file generated for an enabled declaration")
		}
		if fileWritten && obs.File != nil {
			// the property's own observation point: compile, reflect, execute
			progDir := filepath.Join(dir, "cmd", "prog")
			_ = os.MkdirAll(progDir, 0o755)
			_ = os.WriteFile(filepath.Join(progDir, "main.go"), []byte(progSrc(&in, obs.File)), 0o644)
			bin := filepath.Join(dir, "prog.bin")
			out, err := runCmd(dir, 180*time.Second, "go", "build", "-o", bin, "./cmd/prog")
			if err != nil {
				obs.Build = sanitize(firstErrorLine(out), dir)
				viol = append(viol, "the generated code does not compile: "+obs.Build)
			} else {
				obs.Build = "ok"
				pout, perr := runCmd(dir, 60*time.Second, bin)
				if perr != nil || json.Unmarshal([]byte(pout), &obs.Reflect) != nil {
					viol = append(viol, "the reflect program failed: "+sanitize(pout, dir))
				} else {
					viol = append(viol, reflectViolations(&in, obs.Reflect)...)
				}
			}
		}
	}
	if len(viol) > 0 && invalidInput() {
		res.Observed = obs
		return res
	}
	if obs.InDomain {
		res.GoViolations = append(res.GoViolations, viol...)
	} else {
		sort.Strings(domainNotes)
		dn := strings.Join(dedup(domainNotes), "; ")
		for _, v := range viol {
			res.Notes = append(res.Notes, "outside the generator's domain ("+dn+"): "+v)
		}
		if len(viol) > 0 {
			addNote(dn, viol[0])
		} else {
			addNote(dn, "generated, compiled and copied like an in-domain input")
		}
	}
	switch {
	case in.shadowClass():
		res.Class = knownClass
	case in.ifaceClass():
		res.Class = knownClassIface
	case in.nestedAliasClass():
		res.Class = knownClassNestedAlias
	default:
		res.Class = in.defectClass()
	}
	res.Observed = obs

	// ---- Coq case ----
	var tis []string
	for _, fs := range in.sorted() {
		tis = append(tis, in.coqTInput(fs))
	}
	obsTerm := "ObsOther"
	switch obs.Outcome {
	case "ok":
		if obs.File != nil {
			obsTerm = obs.File.coq()
		} else if !fileWritten {
			obsTerm = "(ObsFile [] [])"
		}
	case "must_struct":
		obsTerm = "(ObsErr EMustStruct)"
	case "need_named":
		obsTerm = "(ObsErr ENeedNamed)"
	case "crash":
		obsTerm = "ObsCrash"
	}
	// tag text that no raw string literal can carry (CR, NUL, BOM, invalid UTF-8, backquote): what the Go scanner does
	// with the rendered literal (drops CR, rejects the others) is not modelled — such cases are notes only
	exotic := false
	for _, w := range domainNotes {
		if strings.HasPrefix(w, "tag text outside") {
			exotic = true
		}
	}
	if exotic {
		res.Tags = append(res.Tags, "exotic_tag_text(not_in_coq)")
	} else {
		res.Coq = fmt.Sprintf("mk_case %s %s %s %s %s %s", core.Hex(pkgPathOf(&in, "target")), core.CoqList(tis),
			core.CoqBool(in.shadowClass()), core.CoqBool(in.ifaceClass()), core.CoqBool(obs.InDomain), obsTerm)
	}

	// ---- distribution ----
	res.Tags = append(res.Tags, "expected="+obs.Expected, "outcome="+obs.Outcome)
	if !obs.InDomain {
		res.Tags = append(res.Tags, "notes_stream(out_of_domain)")
	}
	if obs.Expected != "ok" {
		res.Tags = append(res.Tags, "malformed_stream(error_case)")
	}
	nf, nOmit, nRepl := 0, 0, 0
	kinds := map[string]bool{}
	tagf := map[string]bool{}
	grouped := false
	for g := range in.Groups {
		if len(in.Groups[g].Specs) > 1 {
			grouped = true
		}
	}
	for _, fs := range in.flat() {
		s := fs.S
		if !s.enabled() {
			continue
		}
		nOmit += len(s.Omit)
		nRepl += len(s.Replace)
		if s.RHS == "sel" || s.RHS == "local" {
			for _, f := range in.Types[s.Origin].Fields {
				nf++
				kinds["field:"+f.Ty.K] = true
				ft := f.Ty
				if ft.K == "alias" {
					kinds["alias_field:"+ft.unalias().K] = true
					if ft.mentionsUnnameable() {
						kinds["alias_field:unnameable_target"] = true
					}
					if ft.Elem != nil && ft.Elem.K == "alias" {
						kinds["alias_field:alias_of_alias"] = true
					}
				} else {
					ft.aliases(func(*Ty) { kinds["alias_below_top_level"] = true })
				}
				t := string(f.Tag)
				for _, c := range []string{".", "[", "@", "%", "'", "\"", " ", "\n"} {
					if strings.Contains(t, c) {
						tagf["tagchar:"+strings.ReplaceAll(c, "\n", "\\n")] = true
					}
				}
			}
		}
	}
	for k := range kinds {
		res.Tags = append(res.Tags, k)
	}
	for k := range tagf {
		res.Tags = append(res.Tags, k)
	}
	if grouped {
		res.Tags = append(res.Tags, "grouped_decl")
	}
	if nOmit > 0 {
		res.Tags = append(res.Tags, "omit")
	}
	if nRepl > 0 {
		res.Tags = append(res.Tags, "replace")
	}
	if in.OriginPkg != "origin" || in.LibPkg != "lib" {
		res.Tags = append(res.Tags, "pkgname:"+in.OriginPkg+"/"+in.LibPkg)
	}
	if in.OriginDecl != "" || in.LibDecl != "" {
		res.Tags = append(res.Tags, "package_clause_unlike_directory")
		if in.OriginDecl == in.LibPkg || in.LibDecl == in.OriginPkg {
			res.Tags = append(res.Tags, "package_clause_like_another_directory")
		}
	}
	if res.Class != "" {
		res.Tags = append(res.Tags, "class:"+res.Class)
	}
	sort.Strings(res.Tags)
	res.Nontrivial = obs.Expected != "ok" || (nf >= 2 && (nOmit > 0 || nRepl > 0 || len(tagf) > 0))
	return res
}

func dedup(xs []string) []string {
	var out []string
	for i, x := range xs {
		if i == 0 || x != xs[i-1] {
			out = append(out, x)
		}
	}
	return out
}
