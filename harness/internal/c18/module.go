package c18

import (
	"fmt"
	"os"
	"path/filepath"
	"sort"
	"strings"
)

// tag literal for the origin source: raw string whenever the text survives one, else interpreted
func tagLit(tag []byte) string {
	if len(tag) == 0 {
		return ""
	}
	s := string(tag)
	if tagInDomain(tag) {
		return " `" + s + "`"
	}
	return " " + quoteTag(tag)
}

func fieldsSrc(in *Input, fs []Field, from string, indent string) string {
	var b strings.Builder
	for i := range fs {
		f := &fs[i]
		for _, l := range strings.Split(f.Doc, "\n") {
			if l != "" {
				fmt.Fprintf(&b, "%s// %s\n", indent, l)
			}
		}
		if f.Embedded {
			fmt.Fprintf(&b, "%s%s%s\n", indent, f.Ty.src(in, from), tagLit(f.Tag))
		} else {
			fmt.Fprintf(&b, "%s%s %s%s\n", indent, f.Name, f.Ty.src(in, from), tagLit(f.Tag))
		}
	}
	return b.String()
}

func importsSrc(in *Input, pkgs map[string]bool, self string) string {
	var paths []string
	name := map[string]string{}
	for p := range pkgs {
		if p == self || p == "" {
			continue
		}
		paths = append(paths, pkgPathOf(in, p))
		if declNameOf(in, p) != pkgNameOf(in, p) {
			name[pkgPathOf(in, p)] = pkgNameOf(in, p) + " " // the sources qualify by the directory name
		}
	}
	sort.Strings(paths)
	if len(paths) == 0 {
		return ""
	}
	var b strings.Builder
	b.WriteString("import (\n")
	for _, p := range paths {
		fmt.Fprintf(&b, "\t%s%q\n", name[p], p)
	}
	b.WriteString(")\n\n")
	return b.String()
}

func withAsSrc(variant int) string {
	const as = "func (in *WithAs) DeepCopyAs() *WithAs {\n\tif in == nil {\n\t\treturn nil\n\t}\n\tout := new(WithAs)\n\tin.DeepCopyIntoAs(out)\n\treturn out\n}\n\n"
	const into = "func (in *WithAs) DeepCopyIntoAs(out *WithAs) { out.V = in.V }\n\n"
	const str = "func (in *WithAs) String() string { return \"w\" }\n\n"
	switch variant {
	case 1:
		return as + into
	case 2:
		return into + as
	case 3:
		return as + into + str
	case 4:
		return "func (in WithAs) DeepCopyAs() WithAs { return WithAs{V: in.V} }\n\n"
	}
	return ""
}

// writeModule writes the synthetic two(+one)-package module into dir.
func writeModule(in *Input, dir string) error {
	files := map[string]string{}
	files["go.mod"] = "module " + modPath + "\n\ngo 1.24.2\n"

	// ---- lib package (element types; imports nothing) and rpl (a hand-written partial of origin.Inner; imports origin)
	lib := in.LibPkg
	files[lib+"/lib.go"] = "package " + declNameOf(in, "lib") + "\n\ntype Item struct{ N int }\n\ntype Code int\n"
	files["rpl/rpl.go"] = "package rpl\n\nimport " + in.OriginPkg + " " + fmt.Sprintf("%q", pkgPathOf(in, "origin")) + "\n\n" +
		"// R is a hand-written partial of Inner\ntype R struct{ X int }\n\nfunc (in *R) DeepCopyIntoAs(out *" + in.OriginPkg + ".Inner) { out.X = in.X }\n"

	used := map[string]bool{}
	for i := range in.Types {
		if mentionsTarget(&in.Types[i]) {
			continue
		}
		for j := range in.Types[i].Fields {
			ty := &in.Types[i].Fields[j].Ty
			ty.srcPkgs(used)
			ty.aliases(func(a *Ty) { a.Elem.srcPkgs(used) }) // the alias declarations live in this file
		}
	}
	delete(used, "target")
	var ob strings.Builder
	ob.WriteString("package " + declNameOf(in, "origin") + "\n\n")
	ob.WriteString(importsSrc(in, used, "origin"))
	ob.WriteString("type Inner struct {\n\tX int\n\tY string `json:\"y\"`\n}\n\ntype Kind string\n\n")
	ob.WriteString("type Iface interface{ M() string }\n\ntype Impl struct{ S string }\n\nfunc (i Impl) M() string { return i.S }\n\n")
	ob.WriteString("type WithAs struct{ V int }\n\n")
	ob.WriteString(withAsSrc(in.WithAs))
	// alias declarations (sorted by name), the unexported types and the internal package they may stand for
	aliasDecl := map[string]string{}
	hidden, internal := map[string]bool{}, false
	for i := range in.Types {
		if mentionsTarget(&in.Types[i]) {
			continue
		}
		for j := range in.Types[i].Fields {
			ty := &in.Types[i].Fields[j].Ty
			ty.aliases(func(a *Ty) {
				if _, ok := aliasDecl[a.Name]; !ok && a.Elem != nil {
					aliasDecl[a.Name] = a.Elem.src(in, "origin")
				}
			})
			ty.named(func(n *Ty) {
				if n.Pkg == "origin" && !exported(n.Name) {
					hidden[n.Name] = true
				}
				internal = internal || n.Pkg == "internal"
			})
		}
	}
	var aliasNames []string
	for n := range aliasDecl {
		aliasNames = append(aliasNames, n)
	}
	sort.Strings(aliasNames)
	for _, n := range aliasNames {
		fmt.Fprintf(&ob, "type %s = %s\n\n", n, aliasDecl[n])
	}
	var hiddenNames []string
	for n := range hidden {
		hiddenNames = append(hiddenNames, n)
	}
	sort.Strings(hiddenNames)
	for _, n := range hiddenNames {
		if n == "secret" {
			fmt.Fprintf(&ob, "type %s string\n\n", n)
		} else {
			fmt.Fprintf(&ob, "type %s struct {\n\tN int\n\tS string\n}\n\n", n)
		}
	}
	if internal {
		files[in.OriginPkg+"/internal/"+internalPkgName+"/"+internalPkgName+".go"] = "package " + internalPkgName +
			"\n\ntype Item struct {\n\tN int\n\tS string\n}\n\ntype Entry struct{ W float64 }\n\ntype Code int\n"
	}
	for i := range in.Types {
		ot := &in.Types[i]
		if mentionsTarget(ot) {
			continue // declared in the target package only (same-package origin)
		}
		if ot.NonStruct != "" {
			fmt.Fprintf(&ob, "type %s %s\n\n", ot.Name, ot.NonStruct)
			continue
		}
		fmt.Fprintf(&ob, "// %s is origin type %d.\ntype %s struct {\n%s}\n\n", ot.Name, i, ot.Name, fieldsSrc(in, ot.Fields, "origin", "\t"))
	}
	files[in.OriginPkg+"/origin.go"] = ob.String()

	// ---- target package
	tused := map[string]bool{"origin": true}
	var locals []int
	seenLocal := map[int]bool{}
	for _, fs := range in.flat() {
		s := fs.S
		if (s.RHS == "local" || s.RHS == "lit") && !seenLocal[s.Origin] {
			if s.RHS == "local" {
				seenLocal[s.Origin] = true
				locals = append(locals, s.Origin)
			}
			for j := range in.Types[s.Origin].Fields {
				in.Types[s.Origin].Fields[j].Ty.srcPkgs(tused)
			}
		}
	}
	var tb strings.Builder
	tb.WriteString("package target\n\n")
	tb.WriteString(importsSrc(in, tused, "target"))
	tb.WriteString("var _ " + in.OriginPkg + ".Inner\n\ntype LInner struct{ Z int }\n\ntype LIface interface{ M() string }\n\ntype LMap map[string]int\n\n")
	for _, k := range locals {
		ot := &in.Types[k]
		if ot.NonStruct != "" {
			fmt.Fprintf(&tb, "type %s %s\n\n", localName(ot), strings.ReplaceAll(ot.NonStruct, "Inner", in.OriginPkg+".Inner"))
			continue
		}
		fmt.Fprintf(&tb, "type %s struct {\n%s}\n\n", localName(ot), fieldsSrc(in, ot.Fields, "target", "\t"))
	}
	for g := range in.Groups {
		grp := &in.Groups[g]
		paren := grp.Paren || len(grp.Specs) != 1
		ind := ""
		if paren {
			tb.WriteString("type (\n")
			ind = "\t"
		}
		for i := range grp.Specs {
			s := &grp.Specs[i]
			switch s.Enabled {
			case "plain":
				fmt.Fprintf(&tb, "%s// +gengo:partialstruct\n", ind)
			}
			if s.Enabled != "none" {
				for _, o := range s.Omit {
					fmt.Fprintf(&tb, "%s// +gengo:partialstruct:omit=%s\n", ind, o)
				}
				for _, r := range s.Replace {
					fmt.Fprintf(&tb, "%s// +gengo:partialstruct:replace=%s\n", ind, r)
				}
			}
			rhs := ""
			switch s.RHS {
			case "sel":
				rhs = in.OriginPkg + "." + in.Types[s.Origin].Name
			case "local":
				rhs = localName(&in.Types[s.Origin])
			case "lit":
				ot := &in.Types[s.Origin]
				if ot.NonStruct != "" {
					rhs = strings.ReplaceAll(ot.NonStruct, "Inner", in.OriginPkg+".Inner")
				} else {
					rhs = "struct {\n" + fieldsSrc(in, ot.Fields, "target", ind+"\t") + ind + "}"
				}
			default:
				rhs = strings.ReplaceAll(s.Raw, "origin.", in.OriginPkg+".")
			}
			if paren {
				fmt.Fprintf(&tb, "%s%s %s\n", ind, s.Name, rhs)
				if i+1 < len(grp.Specs) {
					tb.WriteString("\n")
				}
			} else {
				fmt.Fprintf(&tb, "type %s %s\n", s.Name, rhs)
			}
		}
		if paren {
			tb.WriteString(")\n")
		}
		tb.WriteString("\n")
	}
	files["target/target.go"] = tb.String()

	for name, content := range files {
		p := filepath.Join(dir, name)
		if err := os.MkdirAll(filepath.Dir(p), 0o755); err != nil {
			return err
		}
		if err := os.WriteFile(p, []byte(content), 0o644); err != nil {
			return err
		}
	}
	return nil
}

func mentionsTarget(ot *OriginType) bool {
	ps := map[string]bool{}
	for j := range ot.Fields {
		ot.Fields[j].Ty.pkgs(ps)
	}
	return ps["target"]
}
