// Package c18: the partialstruct generator (devpkg/partialstruct) — generated struct mirrors the origin struct
// minus omitted fields; DeepCopyAs / DeepCopyIntoAs; error cases.
package c18

import (
	"fmt"
	"go/token"
	"sort"
	"strconv"
	"strings"
	"unicode/utf8"

	"verifharness/internal/core"
)

const modPath = "example.com/m"

// ---------------------------------------------------------------------------------------------
// structured input (JSON round-trippable)

// Ty is a field type of the origin struct.
type Ty struct {
	K    string `json:"k"`              // basic | named | ptr | slice | array | map | any | error | ifacelit | alias
	Name string `json:"name,omitempty"` // basic: int, string, …; named: the type's name; alias: the alias's name
	Pkg  string `json:"pkg,omitempty"`  // named: "origin" | "lib" | "target" | "internal" | a std import path; alias: "origin"
	Len  int    `json:"len,omitempty"`  // array
	Elem *Ty    `json:"elem,omitempty"` // ptr, slice, array, map value; alias: the right-hand side of `type Name = …`
	Key  *Ty    `json:"key,omitempty"`  // map key
}

type Field struct {
	Name     string `json:"name"`
	Ty       Ty     `json:"ty"`
	Tag      []byte `json:"tag"`             // base64: arbitrary bytes survive
	TagQ     string `json:"tag_q,omitempty"` // Go-quoted copy for readers
	Embedded bool   `json:"embedded,omitempty"`
	Doc      string `json:"doc,omitempty"`
}

// OriginType is one type declared in the origin package (a candidate origin).
type OriginType struct {
	Name      string  `json:"name"`
	Fields    []Field `json:"fields,omitempty"`
	NonStruct string  `json:"non_struct,omitempty"` // if set: `type Name <NonStruct>` (origin package syntax)
}

// Spec is one type spec of the target package.
type Spec struct {
	Name    string   `json:"name"`
	RHS     string   `json:"rhs"`               // sel | local | lit | raw
	Origin  int      `json:"origin"`            // index into Types (sel, local, lit)
	Raw     string   `json:"raw,omitempty"`     // rhs text for RHS == raw (target package syntax)
	Enabled string   `json:"enabled"`           // plain | keyonly | none
	Omit    []string `json:"omit,omitempty"`    // values of +gengo:partialstruct:omit=
	Replace []string `json:"replace,omitempty"` // raw values of +gengo:partialstruct:replace=
}

type Group struct {
	Paren bool   `json:"paren,omitempty"` // type ( … ) even for a single spec
	Specs []Spec `json:"specs"`
}

type Input struct {
	OriginPkg string       `json:"origin_pkg"` // last path element = package name of the origin package
	LibPkg    string       `json:"lib_pkg"`    // a second foreign package (element types)
	// the name in the `package` clause when it differs from the directory (dir money, `package currency`); "" = the same
	OriginDecl string `json:"origin_decl,omitempty"`
	LibDecl    string `json:"lib_decl,omitempty"`
	WithAs    int          `json:"with_as"`    // variant of origin.WithAs' methods (0..4)
	Types     []OriginType `json:"types"`
	Groups    []Group      `json:"groups"`
}

// ---------------------------------------------------------------------------------------------
// names and paths

func pkgPathOf(in *Input, pkg string) string {
	switch pkg {
	case "origin":
		return modPath + "/" + in.OriginPkg
	case "lib":
		return modPath + "/" + in.LibPkg
	case "target":
		return modPath + "/target"
	case "internal":
		// a package only the origin's tree may import: the partial package cannot name its types
		return modPath + "/" + in.OriginPkg + "/internal/" + internalPkgName
	case "":
		return ""
	}
	return pkg // std
}

// declNameOf: the name the package DECLARES - what an import without an explicit name binds in the importing file.
// (pkgNameOf is the last element of the import path: the name gengo's import tracker derives, and the qualifier the
// harness' own sources use - they import with an explicit name whenever the two differ.)
func declNameOf(in *Input, pkg string) string {
	switch {
	case pkg == "origin" && in.OriginDecl != "":
		return in.OriginDecl
	case pkg == "lib" && in.LibDecl != "":
		return in.LibDecl
	}
	return pkgNameOf(in, pkg)
}

// declared name of the package with this import path, "" for a path outside the synthetic module
func (in *Input) declNameOfPath(path string) string {
	for _, p := range []string{"origin", "lib", "target", "internal"} {
		if pkgPathOf(in, p) == path {
			return declNameOf(in, p)
		}
	}
	if path == modPath+"/rpl" {
		return "rpl"
	}
	return ""
}

func usableDeclName(n string) bool {
	switch n {
	case "main", "init", "_", "target", "rpl", "og", "tg", "in", "out", "i", "o":
		return false
	}
	return rawIsIdent(n) && token.Lookup(n) == token.IDENT && !exported(n)
}

// name of the package below <origin>/internal/ (types Item, Entry, Code)
const internalPkgName = "hid"

func pkgNameOf(in *Input, pkg string) string {
	switch pkg {
	case "origin":
		return in.OriginPkg
	case "lib":
		return in.LibPkg
	case "target":
		return "target"
	case "internal":
		return internalPkgName
	}
	if i := strings.LastIndex(pkg, "/"); i >= 0 {
		return pkg[i+1:]
	}
	return pkg
}

// the one unnamed method interface of the menu, as go/printer prints it
const ifaceLitText = "interface{ M() string }"

// canonical basic name as go/types prints it
func canonBasic(n string) string {
	switch n {
	case "byte":
		return "uint8"
	case "rune":
		return "int32"
	}
	return n
}

// Go source of a type as seen from package `from` ("origin", "target", "lib")
func (t *Ty) src(in *Input, from string) string {
	switch t.K {
	case "basic":
		return t.Name
	case "any":
		if t.Name != "" {
			return t.Name // "interface{}" spelled out
		}
		return "any"
	case "error":
		return "error"
	case "ifacelit":
		return ifaceLitText
	case "named", "alias":
		if t.Pkg == from {
			return t.Name
		}
		return pkgNameOf(in, t.Pkg) + "." + t.Name
	case "ptr":
		return "*" + t.Elem.src(in, from)
	case "slice":
		return "[]" + t.Elem.src(in, from)
	case "array":
		return fmt.Sprintf("[%d]%s", t.Len, t.Elem.src(in, from))
	case "map":
		return "map[" + t.Key.src(in, from) + "]" + t.Elem.src(in, from)
	}
	return "int"
}

// the packages the RENDERED type mentions below the top level: an alias is printed through its right-hand side
// (typesx.FromTType), so only the packages of the right-hand side count
func (t *Ty) pkgs(acc map[string]bool) {
	if t == nil {
		return
	}
	if t.K == "named" {
		acc[t.Pkg] = true
	}
	t.Elem.pkgs(acc)
	t.Key.pkgs(acc)
}

// method signatures of the named types of the menu, in source order (what go/types yields for Named.Method(i))
type msig struct {
	Name          string
	NParams, NRes int
	P0Ptr, R0Ptr  bool
}

func withAsMethods(variant int) []msig {
	as := msig{"DeepCopyAs", 0, 1, false, true}
	into := msig{"DeepCopyIntoAs", 1, 0, true, false}
	str := msig{"String", 0, 1, false, false}
	switch variant {
	case 1:
		return []msig{as, into}
	case 2:
		return []msig{into, as}
	case 3:
		return []msig{as, into, str}
	case 4:
		return []msig{{"DeepCopyAs", 0, 1, false, false}}
	}
	return nil
}

func methodsOf(in *Input, t *Ty) []msig {
	if t.K != "named" {
		return nil
	}
	switch {
	case t.Pkg == "origin" && t.Name == "WithAs":
		return withAsMethods(in.WithAs)
	case t.Pkg == "origin" && t.Name == "Iface":
		return []msig{{"M", 0, 1, false, false}}
	case t.Pkg == "origin" && t.Name == "Impl":
		return []msig{{"M", 0, 1, false, false}}
	case t.Pkg == "time" && t.Name == "Duration", t.Pkg == "time" && t.Name == "Time":
		return []msig{{"String", 0, 1, false, false}} // representative; no method is called DeepCopy…As
	case t.Pkg == "io" && t.Name == "Reader":
		return []msig{{"Read", 1, 2, false, false}}
	case t.Pkg == "fmt" && t.Name == "Stringer":
		return []msig{{"String", 0, 1, false, false}}
	}
	return nil
}

// underlying kind of a named type of the menu (what x.Underlying() is in createFieldSnippet)
func ukindOf(in *Input, t *Ty) string {
	switch {
	case t.Pkg == "target" && t.Name == "LIface", t.Pkg == "origin" && t.Name == "Iface",
		t.Pkg == "io" && t.Name == "Reader", t.Pkg == "fmt" && t.Name == "Stringer":
		return "UIface"
	case t.Pkg == "target" && t.Name == "LMap":
		return "UMap"
	case t.Pkg == "origin" && t.Name == "Kind", t.Pkg == "lib" && t.Name == "Code", t.Pkg == "time" && t.Name == "Duration",
		t.Pkg == "internal" && t.Name == "Code", t.Pkg == "origin" && t.Name == "secret":
		return "UOther"
	case t.Pkg == "origin":
		for i := range in.Types {
			if in.Types[i].Name == t.Name && in.Types[i].NonStruct != "" {
				return "UOther" // never a field type in generated inputs; foreign, so the kind is not looked at
			}
		}
	}
	return "UStruct"
}

// ---------------------------------------------------------------------------------------------
// Coq terms

func hexb(b []byte) string { return core.Hex(string(b)) }

func coqMsigs(ms []msig) string {
	var items []string
	for _, m := range ms {
		items = append(items, fmt.Sprintf("(%s, %d, %d, %s, %s)", core.Hex(m.Name), m.NParams, m.NRes, core.CoqBool(m.P0Ptr), core.CoqBool(m.R0Ptr)))
	}
	return core.CoqList(items)
}

func (t *Ty) coq(in *Input) string {
	switch t.K {
	case "basic":
		return "(TBasic " + core.Hex(canonBasic(t.Name)) + ")"
	case "any":
		return "TAny"
	case "error":
		return "TError"
	case "ifacelit":
		return "(TIfaceLit " + core.Hex(ifaceLitText) + ")"
	case "named":
		return fmt.Sprintf("(TNamed %s %s %s %s)", core.Hex(pkgPathOf(in, t.Pkg)), core.Hex(t.Name), ukindOf(in, t), coqMsigs(methodsOf(in, t)))
	case "ptr":
		return "(TPtr " + t.Elem.coq(in) + ")"
	case "slice":
		return "(TSlice " + t.Elem.coq(in) + ")"
	case "array":
		return fmt.Sprintf("(TArray %d %s)", t.Len, t.Elem.coq(in))
	case "map":
		return "(TMap " + t.Key.coq(in) + " " + t.Elem.coq(in) + ")"
	case "alias":
		return fmt.Sprintf("(TAlias %s %s %s)", core.Hex(pkgPathOf(in, t.Pkg)), core.Hex(t.Name), t.Elem.coq(in))
	}
	return "(TBasic " + core.Hex("int") + ")"
}

// ---------------------------------------------------------------------------------------------
// alias types (`type Items = []hid.Item`, declared in the origin package) and types the partial package cannot name

// what the alias stands for (types.Unalias)
func (t *Ty) unalias() *Ty {
	for t != nil && t.K == "alias" && t.Elem != nil {
		t = t.Elem
	}
	return t
}

// a named type that code outside the origin's tree cannot write down: a type of <origin>/internal/…, or unexported
func (t *Ty) unnameableHere() bool {
	return t.K == "named" && (t.Pkg == "internal" || ((t.Pkg == "origin" || t.Pkg == "lib") && !exported(t.Name)))
}

// mentionsUnnameable: the type's full expansion (aliases resolved) mentions such a type
func (t *Ty) mentionsUnnameable() bool {
	if t == nil {
		return false
	}
	return t.unnameableHere() || t.Elem.mentionsUnnameable() || t.Key.mentionsUnnameable()
}

// writtenUnnameable: the type AS WRITTEN in the origin struct (alias names are not looked through) mentions such a type:
// no partial struct outside the origin's tree can have a field of that type at all
func (t *Ty) writtenUnnameable() bool {
	if t == nil {
		return false
	}
	if t.K == "alias" {
		return false
	}
	return t.unnameableHere() || t.Elem.writtenUnnameable() || t.Key.writtenUnnameable()
}

// nestedAliasUnnameable: BELOW the top level the type as written mentions an alias whose expansion mentions an
// unnameable type (`[]origin.Item` with `type Item = hid.Item`): TypeLit expands it to `[]hid.Item`
func (t *Ty) nestedAliasUnnameable(top bool) bool {
	if t == nil {
		return false
	}
	if t.K == "alias" {
		if top {
			return false // printed by its own name
		}
		return t.Elem.mentionsUnnameable()
	}
	return t.Elem.nestedAliasUnnameable(false) || t.Key.nestedAliasUnnameable(false)
}

// the packages the type AS WRITTEN in a source file mentions: an alias is written by its own name
func (t *Ty) srcPkgs(acc map[string]bool) {
	if t == nil {
		return
	}
	if t.K == "named" || t.K == "alias" {
		acc[t.Pkg] = true
	}
	if t.K == "alias" {
		return
	}
	t.Elem.srcPkgs(acc)
	t.Key.srcPkgs(acc)
}

// every alias mentioned by the type (outermost first)
func (t *Ty) aliases(visit func(*Ty)) {
	if t == nil {
		return
	}
	if t.K == "alias" {
		visit(t)
	}
	t.Elem.aliases(visit)
	t.Key.aliases(visit)
}

func (t *Ty) named(visit func(*Ty)) {
	if t == nil {
		return
	}
	if t.K == "named" {
		visit(t)
	}
	t.Elem.named(visit)
	t.Key.named(visit)
}

// retained, unreplaced fields of the enabled struct declarations
func (in *Input) retainedFields(visit func(s *Spec, f *Field, replaced bool)) {
	for _, fs := range in.flat() {
		s := fs.S
		if !s.enabled() || !(s.RHS == "sel" || s.RHS == "local") || in.Types[s.Origin].NonStruct != "" {
			continue
		}
		omit := map[string]bool{}
		for _, o := range s.Omit {
			omit[o] = true
		}
		repl := parseReplace(s.Replace)
		for i := range in.Types[s.Origin].Fields {
			f := &in.Types[s.Origin].Fields[i]
			if omit[f.Name] {
				continue
			}
			_, r := repl[f.Name]
			visit(s, f, r)
		}
	}
}

// known-finding class nested_alias_of_unnameable_type
func (in *Input) nestedAliasClass() bool {
	hit := false
	in.retainedFields(func(_ *Spec, f *Field, replaced bool) {
		if !replaced && f.Ty.nestedAliasUnnameable(true) {
			hit = true
		}
	})
	return hit
}

// class of the repaired defect replace_on_alias_field (fixes/C18-replace-on-alias-field.diff): a retained field under a
// (coherent) replace tag whose type is written through an alias of a named struct: createFieldSnippet had no case for
// *types.Alias, so the replace was not seen by the copy body (`out.A = in.A`)
func (in *Input) replacedAliasClass() bool {
	hit := false
	in.retainedFields(func(s *Spec, f *Field, replaced bool) {
		if replaced && f.Ty.K == "alias" && f.Ty.unalias().K == "named" {
			if r := parseReplace(s.Replace)[f.Name]; len(r) > 0 && in.replaceCoherent(s, f, r[0]) {
				hit = true
			}
		}
	})
	return hit
}

func coqFields(in *Input, fs []Field) string {
	var items []string
	for i := range fs {
		f := &fs[i]
		items = append(items, fmt.Sprintf("(mk_field %s %s %s)", core.Hex(f.Name), f.Ty.coq(in), hexb(f.Tag)))
	}
	return core.CoqList(items)
}

func coqBytesList(xs []string) string {
	var items []string
	for _, x := range xs {
		items = append(items, core.Hex(x))
	}
	return core.CoqList(items)
}

// the local name an origin type gets when it is re-declared in the target package (RHS == local)
func localName(ot *OriginType) string { return "L" + ot.Name }

// name of the generated type
func genName(n string) string {
	if n == "" {
		return ""
	}
	return strings.ToUpper(n[0:1]) + n[1:]
}

// flat list of specs in declaration order with their group index
type flatSpec struct {
	G, I int
	S    *Spec
}

func (in *Input) flat() []flatSpec {
	var out []flatSpec
	for g := range in.Groups {
		for i := range in.Groups[g].Specs {
			out = append(out, flatSpec{g, i, &in.Groups[g].Specs[i]})
		}
	}
	return out
}

// specs in the order doGenerate visits them (sort.Strings over the type names)
func (in *Input) sorted() []flatSpec {
	fl := in.flat()
	sort.SliceStable(fl, func(a, b int) bool { return fl[a].S.Name < fl[b].S.Name })
	return fl
}

func (s *Spec) enabled() bool {
	return s.Enabled == "plain" || (s.Enabled == "keyonly" && (len(s.Omit) > 0 || len(s.Replace) > 0))
}

// rhs term of one spec as the generator sees it: what pkg.ObjectOf yields for the type expression
func (in *Input) coqRHS(s *Spec) string {
	switch s.RHS {
	case "sel":
		ot := &in.Types[s.Origin]
		return fmt.Sprintf("(RSel (Some (%s, %s)))", core.Hex(pkgPathOf(in, "origin")), core.Hex(ot.Name))
	case "local":
		ot := &in.Types[s.Origin]
		return fmt.Sprintf("(RIdent (Some (%s, %s)))", core.Hex(pkgPathOf(in, "target")), core.Hex(localName(ot)))
	case "raw":
		if rawIsIdent(s.Raw) {
			return fmt.Sprintf("(RIdent (Some (%s, %s)))", core.Hex(""), core.Hex(s.Raw)) // predeclared type name
		}
		if strings.HasPrefix(s.Raw, "origin.") && rawIsIdent(s.Raw[len("origin."):]) {
			return fmt.Sprintf("(RSel (Some (%s, %s)))", core.Hex(pkgPathOf(in, "origin")), core.Hex(s.Raw[len("origin."):]))
		}
	}
	return "ROther"
}

func rawIsIdent(s string) bool {
	if s == "" {
		return false
	}
	for i, c := range s {
		if !(c == '_' || (c >= 'a' && c <= 'z') || (c >= 'A' && c <= 'Z') || (i > 0 && c >= '0' && c <= '9')) {
			return false
		}
	}
	return true
}

// underlying of the declared type: Some fields (struct) / None
func (in *Input) coqUnder(s *Spec) string {
	switch s.RHS {
	case "sel", "local", "lit":
		ot := &in.Types[s.Origin]
		if ot.NonStruct == "" {
			return "(Some " + coqFields(in, ot.Fields) + ")"
		}
	}
	return "None"
}

func (in *Input) coqTInput(fs flatSpec) string {
	g := &in.Groups[fs.G]
	var specs []string
	for i := range g.Specs {
		specs = append(specs, fmt.Sprintf("(%s, %s)", core.Hex(g.Specs[i].Name), in.coqRHS(&g.Specs[i])))
	}
	s := fs.S
	return fmt.Sprintf("(mk_tinput %s %s %s %s %s %s)", core.Hex(s.Name), core.CoqBool(s.enabled()), core.CoqList(specs),
		in.coqUnder(s), coqBytesList(s.Omit), coqBytesList(s.Replace))
}

// ---------------------------------------------------------------------------------------------
// domain guards (observations (b)-(d) of DESIGN C18 and a few more): outside them nothing is flagged

func tagInDomain(tag []byte) bool {
	if !utf8.Valid(tag) {
		return false
	}
	for _, c := range string(tag) {
		if c == '`' || c == '\r' || c == 0 || c == 0xFEFF {
			return false
		}
	}
	return true
}

func isLowerASCII(c byte) bool { return c >= 'a' && c <= 'z' }

func exported(n string) bool { return n != "" && n[0] >= 'A' && n[0] <= 'Z' }

// parsed replace tag values, as partialstruct.go:47-54 does (last one wins per field)
func parseReplace(vals []string) map[string][]string {
	m := map[string][]string{}
	for _, v := range vals {
		parts := strings.SplitN(v, ":", 2)
		if len(parts) == 2 {
			m[parts[0]] = strings.Split(parts[1], " ")
		}
	}
	return m
}

// outOfDomain returns the reasons why spec s (enabled, struct, from a named type) is outside the generator's domain.
func (in *Input) outOfDomain(s *Spec) []string {
	var why []string
	ot := &in.Types[s.Origin]
	if !(len(s.Name) > 0 && isLowerASCII(s.Name[0])) {
		why = append(why, "declared name does not start with an ASCII lower-case letter")
	}
	omit := map[string]bool{}
	for _, o := range s.Omit {
		omit[o] = true
	}
	repl := parseReplace(s.Replace)
	seen := map[string]bool{}
	for i := range ot.Fields {
		f := &ot.Fields[i]
		if seen[f.Name] && f.Name != "_" {
			why = append(why, "duplicate field name")
		}
		seen[f.Name] = true
		if omit[f.Name] {
			continue
		}
		if f.Name == "_" {
			// mirrored as `_ T`; the copy loop passes over it since repair adc955a: inside the domain
		} else if !exported(f.Name) && s.RHS == "sel" {
			why = append(why, "unexported field of a foreign origin retained (c)")
		}
		if f.Embedded {
			// emitted as a named field; names/types/tags still mirror — inside the domain, embeddedness is not compared (d)
		}
		if f.Ty.writtenUnnameable() && s.RHS == "sel" {
			why = append(why, "retained field whose type, as written, mentions a type the partial package cannot name (c)")
		}
		tag := f.Tag
		if r, ok := repl[f.Name]; ok {
			if !in.replaceCoherent(s, f, r[0]) {
				why = append(why, "replace outside named-struct fields with a DeepCopyIntoAs-providing replacement (b)")
			}
			if len(r) > 1 {
				tag = []byte(strings.Join(r[1:], " "))
			}
		} else if f.Ty.K == "named" && f.Ty.Pkg == "target" {
			why = append(why, "same-package named field without replace (helper assumes generated methods)")
		}
		if !tagInDomain(tag) {
			why = append(why, "tag text outside valid UTF-8 without backquote/CR/NUL/BOM")
		}
	}
	return why
}

// replaceCoherent: the origin field is a named struct of the menu and the replacement provides DeepCopyIntoAs(*FieldType)
func (in *Input) replaceCoherent(s *Spec, f *Field, to string) bool {
	if f.Ty.K == "alias" {
		// an alias IS the type it stands for: `F InnerA` (type InnerA = Inner) is a field of the named struct type Inner
		g := *f
		g.Ty = *f.Ty.unalias()
		return in.replaceCoherent(s, &g, to)
	}
	if f.Ty.K != "named" {
		return false
	}
	// rpl.R copies into origin.Inner
	if f.Ty.Pkg == "origin" && f.Ty.Name == "Inner" && to == modPath+"/rpl.R" {
		return true
	}
	// another generated type of this package whose origin is the field's type and which is itself generated fine
	for _, fs := range in.flat() {
		o := fs.S
		if o == s || !o.enabled() || genName(o.Name) != to || o.RHS != "sel" {
			continue
		}
		ot := &in.Types[o.Origin]
		if ot.NonStruct == "" && f.Ty.Pkg == "origin" && f.Ty.Name == ot.Name && len(in.outOfDomain(o)) == 0 {
			return true
		}
	}
	return false
}

// expected outcome class of the whole package, decided from the input alone (the property's sentence):
// "ok" (every enabled spec generates), "must_struct", "need_named" (first failing spec in sorted order)
func (in *Input) expectedOutcome() string {
	for _, fs := range in.sorted() {
		s := fs.S
		if !s.enabled() {
			continue
		}
		isStruct := (s.RHS == "sel" || s.RHS == "local" || s.RHS == "lit") && in.Types[s.Origin].NonStruct == ""
		if !isStruct {
			return "must_struct"
		}
		if s.RHS == "lit" {
			return "need_named"
		}
	}
	return "ok"
}

// ---------------------------------------------------------------------------------------------
// known-finding class: import name shadowed by the locals of the copy templates

func shadowName(n string, set ...string) bool {
	for _, s := range set {
		if n == s {
			return true
		}
	}
	return false
}

// shadowClass: some type expression inside a generated method body mentions a package whose import name is
// bound as a local there: `new(in.T)` (DeepCopyAs body: in), `make([]o.X, …)` (copy blocks: in, out, i, o).
func (in *Input) shadowClass() bool {
	for _, fs := range in.flat() {
		s := fs.S
		if !s.enabled() || !(s.RHS == "sel" || s.RHS == "local") || in.Types[s.Origin].NonStruct != "" {
			continue
		}
		if s.RHS == "sel" && in.OriginPkg == "in" {
			return true
		}
		omit := map[string]bool{}
		for _, o := range s.Omit {
			omit[o] = true
		}
		for i := range in.Types[s.Origin].Fields {
			f := &in.Types[s.Origin].Fields[i]
			if omit[f.Name] || f.Name == "_" { // no copy statement for omitted and blank fields
				continue
			}
			ps := map[string]bool{}
			switch {
			case f.Ty.K == "slice" || f.Ty.K == "map":
				f.Ty.pkgs(ps)
			case f.Ty.K == "alias" && (f.Ty.unalias().K == "slice" || f.Ty.unalias().K == "map"):
				// since fix adc5fac a container field declared through an alias is copied with make(<alias name>, …):
				// the block mentions the alias's own package only
				ps[f.Ty.Pkg] = true
			default:
				continue
			}
			for p := range ps {
				if p != "target" && shadowName(pkgNameOf(in, p), "in", "out", "i", "o") {
					return true
				}
			}
		}
	}
	return false
}

func (t *Ty) mentionsIfaceLit() bool {
	if t == nil {
		return false
	}
	return t.K == "ifacelit" || t.Elem.mentionsIfaceLit() || t.Key.mentionsIfaceLit()
}

// ifaceClass: a retained, unreplaced field of an enabled struct declaration mentions an unnamed method interface
func (in *Input) ifaceClass() bool {
	for _, fs := range in.flat() {
		s := fs.S
		if !s.enabled() || !(s.RHS == "sel" || s.RHS == "local") || in.Types[s.Origin].NonStruct != "" {
			continue
		}
		omit := map[string]bool{}
		for _, o := range s.Omit {
			omit[o] = true
		}
		repl := parseReplace(s.Replace)
		for i := range in.Types[s.Origin].Fields {
			f := &in.Types[s.Origin].Fields[i]
			if _, r := repl[f.Name]; omit[f.Name] || r {
				continue
			}
			if f.Ty.K != "alias" && f.Ty.mentionsIfaceLit() { // a top-level alias is printed by its own name
				return true
			}
		}
	}
	return false
}

func quoteTag(b []byte) string { return strconv.Quote(string(b)) }

// ---------------------------------------------------------------------------------------------
// classes of the repaired defects (documentation only: status "fixed" entries suppress nothing); they keep the
// failing cases of distinct defects apart so that each gets its own replay

func refSplits(s string) bool {
	base := s
	if i := strings.Index(s, "["); i > 0 {
		base = s[:i]
	}
	return strings.LastIndex(base, ".") > 0
}

func (t *Ty) mentionsError() bool {
	if t == nil {
		return false
	}
	return t.K == "error" || t.Elem.mentionsError() || t.Key.mentionsError()
}

func (in *Input) defectClass() string {
	tagRef, grouped, errField := false, false, false
	for g := range in.Groups {
		grp := &in.Groups[g]
		last := -1
		for i := range grp.Specs {
			if grp.Specs[i].RHS == "sel" || grp.Specs[i].RHS == "local" || (grp.Specs[i].RHS == "raw" && in.coqRHS(&grp.Specs[i]) != "ROther") {
				last = i
			}
		}
		for i := range grp.Specs {
			s := &grp.Specs[i]
			if !s.enabled() || !(s.RHS == "sel" || s.RHS == "local" || s.RHS == "lit") || in.Types[s.Origin].NonStruct != "" {
				continue
			}
			if last >= 0 && last != i && in.coqRHS(&grp.Specs[last]) != in.coqRHS(s) {
				grouped = true
			}
			if s.RHS == "lit" {
				continue
			}
			omit := map[string]bool{}
			for _, o := range s.Omit {
				omit[o] = true
			}
			repl := parseReplace(s.Replace)
			for _, f := range in.Types[s.Origin].Fields {
				if omit[f.Name] {
					continue
				}
				tag := string(f.Tag)
				if r, ok := repl[f.Name]; ok && len(r) > 1 {
					tag = strings.Join(r[1:], " ")
				}
				if refSplits(tag) {
					tagRef = true
				}
				if f.Ty.mentionsError() {
					errField = true
				}
			}
		}
	}
	switch {
	case in.replacedAliasClass():
		return "replace_on_alias_field"
	case tagRef:
		return "tag_rendered_as_type_reference"
	case grouped:
		return "grouped_declaration_origin"
	case errField:
		return "error_typed_field"
	}
	return ""
}
