package c18

import (
	"bytes"
	"fmt"
	"go/ast"
	"go/parser"
	"go/printer"
	"go/token"
	"sort"
	"strconv"
	"strings"

	"verifharness/internal/core"
)

// ---- abstraction of the generated file into the IR of Model/GenPartialStruct.v ----

type ObsField struct {
	Name string `json:"name"`
	Type string `json:"type"` // as printed
	Tag  string `json:"tag"`
	coq  string
}

type ObsStmt struct {
	K      string `json:"k"` // assign | slice | map | into | copyval | copyderef | other
	Field  string `json:"field,omitempty"`
	Method string `json:"method,omitempty"`
	Type   string `json:"type,omitempty"`
	Text   string `json:"text,omitempty"`
	coqTy  string
}

type ObsType struct {
	Name               string     `json:"name"`
	Origin             string     `json:"origin"`
	Into               string     `json:"into"`
	AsOK               bool       `json:"as_ok"`
	Fields             []ObsField `json:"fields"`
	Stmts              []ObsStmt  `json:"stmts"`
	coqOrigin, coqInto string
}

type ObsFile struct {
	Imports [][2]string `json:"imports"` // path, local name; sorted by path
	Types   []ObsType   `json:"types"`
}

func exprText(fset *token.FileSet, e ast.Expr) string {
	var b bytes.Buffer
	_ = printer.Fprint(&b, fset, e)
	return b.String()
}

func coqOty(fset *token.FileSet, e ast.Expr) string {
	switch x := e.(type) {
	case *ast.Ident:
		return "(OIdent " + core.Hex(x.Name) + ")"
	case *ast.SelectorExpr:
		if q, ok := x.X.(*ast.Ident); ok {
			return "(OSel " + core.Hex(q.Name) + " " + core.Hex(x.Sel.Name) + ")"
		}
	case *ast.StarExpr:
		return "(OPtr " + coqOty(fset, x.X) + ")"
	case *ast.ArrayType:
		if x.Len == nil {
			return "(OSlice " + coqOty(fset, x.Elt) + ")"
		}
		if l, ok := x.Len.(*ast.BasicLit); ok {
			if n, err := strconv.ParseUint(l.Value, 0, 63); err == nil {
				return fmt.Sprintf("(OArray %d %s)", n, coqOty(fset, x.Elt))
			}
		}
	case *ast.MapType:
		return "(OMap " + coqOty(fset, x.Key) + " " + coqOty(fset, x.Value) + ")"
	case *ast.InterfaceType:
		if x.Methods == nil || len(x.Methods.List) == 0 {
			return "(OIdent " + core.Hex("any") + ")"
		}
	case *ast.ParenExpr:
		return coqOty(fset, x.X)
	}
	return "(OText " + core.Hex(exprText(fset, e)) + ")"
}

func isIdent(e ast.Expr, name string) bool {
	id, ok := e.(*ast.Ident)
	return ok && id.Name == name
}

// in.F / out.F
func selOf(e ast.Expr, recv string) (string, bool) {
	s, ok := e.(*ast.SelectorExpr)
	if !ok || !isIdent(s.X, recv) {
		return "", false
	}
	return s.Sel.Name, true
}

func addrOf(e ast.Expr, recv string) (string, bool) {
	u, ok := e.(*ast.UnaryExpr)
	if !ok || u.Op != token.AND {
		return "", false
	}
	return selOf(u.X, recv)
}

func derefIdent(e ast.Expr, name string) bool {
	if p, ok := e.(*ast.ParenExpr); ok {
		e = p.X
	}
	s, ok := e.(*ast.StarExpr)
	return ok && isIdent(s.X, name)
}

func callOf(e ast.Expr, fn string, nargs int) (*ast.CallExpr, bool) {
	c, ok := e.(*ast.CallExpr)
	if !ok || !isIdent(c.Fun, fn) || len(c.Args) != nargs {
		return nil, false
	}
	return c, true
}

// abstractStmt recognises exactly the statement shapes of copy_fields.go; anything else is "other".
func abstractStmt(fset *token.FileSet, st ast.Stmt) ObsStmt {
	other := func() ObsStmt {
		var b bytes.Buffer
		_ = printer.Fprint(&b, fset, st)
		return ObsStmt{K: "other", Text: b.String()}
	}
	switch x := st.(type) {
	case *ast.AssignStmt:
		if len(x.Lhs) != 1 || len(x.Rhs) != 1 || x.Tok != token.ASSIGN {
			return other()
		}
		f, ok := selOf(x.Lhs[0], "out")
		if !ok {
			return other()
		}
		if g, ok := selOf(x.Rhs[0], "in"); ok && g == f {
			return ObsStmt{K: "assign", Field: f}
		}
		rhs := x.Rhs[0]
		k := "copyval"
		if s, ok := rhs.(*ast.StarExpr); ok {
			rhs, k = s.X, "copyderef"
		}
		if c, ok := rhs.(*ast.CallExpr); ok && len(c.Args) == 0 {
			if m, ok := c.Fun.(*ast.SelectorExpr); ok {
				if g, ok := selOf(m.X, "in"); ok && g == f {
					return ObsStmt{K: k, Field: f, Method: m.Sel.Name}
				}
			}
		}
	case *ast.ExprStmt:
		if c, ok := x.X.(*ast.CallExpr); ok && len(c.Args) == 1 {
			if m, ok := c.Fun.(*ast.SelectorExpr); ok {
				if f, ok := selOf(m.X, "in"); ok {
					if g, ok := addrOf(c.Args[0], "out"); ok && g == f {
						return ObsStmt{K: "into", Field: f, Method: m.Sel.Name}
					}
				}
			}
		}
	case *ast.IfStmt:
		if x.Init != nil || x.Else != nil {
			return other()
		}
		cond, ok := x.Cond.(*ast.BinaryExpr)
		if !ok || cond.Op != token.NEQ || !isIdent(cond.Y, "nil") {
			return other()
		}
		f, ok := selOf(cond.X, "in")
		if !ok || len(x.Body.List) != 3 {
			return other()
		}
		// i, o := &in.F, &out.F
		a0, ok := x.Body.List[0].(*ast.AssignStmt)
		if !ok || a0.Tok != token.DEFINE || len(a0.Lhs) != 2 || len(a0.Rhs) != 2 || !isIdent(a0.Lhs[0], "i") || !isIdent(a0.Lhs[1], "o") {
			return other()
		}
		if g, ok := addrOf(a0.Rhs[0], "in"); !ok || g != f {
			return other()
		}
		if g, ok := addrOf(a0.Rhs[1], "out"); !ok || g != f {
			return other()
		}
		// *o = make(T, len(*i))
		a1, ok := x.Body.List[1].(*ast.AssignStmt)
		if !ok || a1.Tok != token.ASSIGN || len(a1.Lhs) != 1 || len(a1.Rhs) != 1 || !derefIdent(a1.Lhs[0], "o") {
			return other()
		}
		mk, ok := callOf(a1.Rhs[0], "make", 2)
		if !ok {
			return other()
		}
		if ln, ok := callOf(mk.Args[1], "len", 1); !ok || !derefIdent(ln.Args[0], "i") {
			return other()
		}
		ty := mk.Args[0]
		switch y := x.Body.List[2].(type) {
		case *ast.ExprStmt: // copy(*o, *i)
			if c, ok := callOf(y.X, "copy", 2); ok && derefIdent(c.Args[0], "o") && derefIdent(c.Args[1], "i") {
				return ObsStmt{K: "slice", Field: f, Type: exprText(fset, ty), coqTy: coqOty(fset, ty)}
			}
		case *ast.RangeStmt: // for key, val := range *i { (*o)[key] = val }
			if y.Tok == token.DEFINE && isIdent(y.Key, "key") && y.Value != nil && isIdent(y.Value, "val") && derefIdent(y.X, "i") && len(y.Body.List) == 1 {
				if a, ok := y.Body.List[0].(*ast.AssignStmt); ok && a.Tok == token.ASSIGN && len(a.Lhs) == 1 && len(a.Rhs) == 1 && isIdent(a.Rhs[0], "val") {
					if ix, ok := a.Lhs[0].(*ast.IndexExpr); ok && derefIdent(ix.X, "o") && isIdent(ix.Index, "key") {
						return ObsStmt{K: "map", Field: f, Type: exprText(fset, ty), coqTy: coqOty(fset, ty)}
					}
				}
			}
		}
	}
	return other()
}

// DeepCopyAs body: if in == nil { return nil }; out := new(T); in.DeepCopyIntoAs(out); return out
func asShapeOK(fset *token.FileSet, fd *ast.FuncDecl, origin string) bool {
	if fd.Body == nil || len(fd.Body.List) != 4 {
		return false
	}
	ifs, ok := fd.Body.List[0].(*ast.IfStmt)
	if !ok || ifs.Init != nil || ifs.Else != nil || len(ifs.Body.List) != 1 {
		return false
	}
	c, ok := ifs.Cond.(*ast.BinaryExpr)
	if !ok || c.Op != token.EQL || !isIdent(c.X, "in") || !isIdent(c.Y, "nil") {
		return false
	}
	r, ok := ifs.Body.List[0].(*ast.ReturnStmt)
	if !ok || len(r.Results) != 1 || !isIdent(r.Results[0], "nil") {
		return false
	}
	a, ok := fd.Body.List[1].(*ast.AssignStmt)
	if !ok || a.Tok != token.DEFINE || len(a.Lhs) != 1 || len(a.Rhs) != 1 || !isIdent(a.Lhs[0], "out") {
		return false
	}
	nw, ok := callOf(a.Rhs[0], "new", 1)
	if !ok || exprText(fset, nw.Args[0]) != origin {
		return false
	}
	e, ok := fd.Body.List[2].(*ast.ExprStmt)
	if !ok {
		return false
	}
	call, ok := e.X.(*ast.CallExpr)
	if !ok || len(call.Args) != 1 || !isIdent(call.Args[0], "out") {
		return false
	}
	m, ok := call.Fun.(*ast.SelectorExpr)
	if !ok || !isIdent(m.X, "in") || m.Sel.Name != "DeepCopyIntoAs" {
		return false
	}
	r2, ok := fd.Body.List[3].(*ast.ReturnStmt)
	return ok && len(r2.Results) == 1 && isIdent(r2.Results[0], "out")
}

func recvName(fd *ast.FuncDecl) (string, bool) {
	if fd.Recv == nil || len(fd.Recv.List) != 1 || len(fd.Recv.List[0].Names) != 1 || fd.Recv.List[0].Names[0].Name != "in" {
		return "", false
	}
	st, ok := fd.Recv.List[0].Type.(*ast.StarExpr)
	if !ok {
		return "", false
	}
	id, ok := st.X.(*ast.Ident)
	if !ok {
		return "", false
	}
	return id.Name, true
}

// abstractFile parses the generated file; the struct declarations in file order with their two methods.
// declName: the name a package declares (what an import WITHOUT an explicit name binds), "" if unknown (std packages:
// the last path element).
func abstractFile(path string, declName func(importPath string) string) (*ObsFile, error) {
	fset := token.NewFileSet()
	f, err := parser.ParseFile(fset, path, nil, parser.ParseComments|parser.SkipObjectResolution)
	if err != nil {
		return nil, err
	}
	of := &ObsFile{}
	for _, im := range f.Imports {
		p, _ := strconv.Unquote(im.Path.Value)
		name := ""
		if im.Name != nil {
			name = im.Name.Name
		} else if d := declName(p); d != "" {
			name = d
		} else if i := strings.LastIndex(p, "/"); i >= 0 {
			name = p[i+1:]
		} else {
			name = p
		}
		of.Imports = append(of.Imports, [2]string{p, name})
	}
	sort.Slice(of.Imports, func(a, b int) bool { return of.Imports[a][0] < of.Imports[b][0] })
	idx := map[string]int{}
	for _, d := range f.Decls {
		gd, ok := d.(*ast.GenDecl)
		if !ok || gd.Tok != token.TYPE {
			continue
		}
		for _, sp := range gd.Specs {
			ts := sp.(*ast.TypeSpec)
			st, ok := ts.Type.(*ast.StructType)
			if !ok {
				continue
			}
			ot := ObsType{Name: ts.Name.Name, coqOrigin: "(OText " + core.Hex("") + ")", coqInto: "(OText " + core.Hex("") + ")"}
			for _, fl := range st.Fields.List {
				tag := ""
				if fl.Tag != nil {
					tag, _ = strconv.Unquote(fl.Tag.Value)
				}
				names := fl.Names
				if len(names) == 0 { // embedded field in the generated struct (never produced today)
					names = []*ast.Ident{{Name: "<embedded>"}}
				}
				for _, n := range names {
					ot.Fields = append(ot.Fields, ObsField{Name: n.Name, Type: exprText(fset, fl.Type), Tag: tag, coq: coqOty(fset, fl.Type)})
				}
			}
			idx[ot.Name] = len(of.Types)
			of.Types = append(of.Types, ot)
		}
	}
	// methods belong to the closest preceding struct declaration of that name (the file is rendered type by type;
	// two declarations may generate the same name, which does not compile but must still be abstracted faithfully)
	pos := map[string][]int{}
	for k := range of.Types {
		pos[of.Types[k].Name] = append(pos[of.Types[k].Name], k)
	}
	typePos := map[int]token.Pos{}
	{
		k := 0
		for _, d := range f.Decls {
			if gd, ok := d.(*ast.GenDecl); ok && gd.Tok == token.TYPE {
				for _, sp := range gd.Specs {
					if _, ok := sp.(*ast.TypeSpec).Type.(*ast.StructType); ok {
						typePos[k] = sp.Pos()
						k++
					}
				}
			}
		}
	}
	for _, d := range f.Decls {
		fd, ok := d.(*ast.FuncDecl)
		if !ok {
			continue
		}
		rn, ok := recvName(fd)
		if !ok {
			continue
		}
		if _, ok := idx[rn]; !ok {
			continue
		}
		k := -1
		for _, cand := range pos[rn] {
			if typePos[cand] < fd.Pos() {
				k = cand
			}
		}
		if k < 0 {
			continue
		}
		ot := &of.Types[k]
		switch fd.Name.Name {
		case "DeepCopyAs":
			if fd.Type.Params.NumFields() == 0 && fd.Type.Results != nil && len(fd.Type.Results.List) == 1 && len(fd.Type.Results.List[0].Names) == 0 {
				if st, ok := fd.Type.Results.List[0].Type.(*ast.StarExpr); ok {
					ot.Origin = exprText(fset, st.X)
					ot.coqOrigin = coqOty(fset, st.X)
					ot.AsOK = asShapeOK(fset, fd, ot.Origin)
				}
			}
		case "DeepCopyIntoAs":
			if fd.Type.Results == nil && len(fd.Type.Params.List) == 1 && len(fd.Type.Params.List[0].Names) == 1 && fd.Type.Params.List[0].Names[0].Name == "out" {
				if st, ok := fd.Type.Params.List[0].Type.(*ast.StarExpr); ok {
					ot.Into = exprText(fset, st.X)
					ot.coqInto = coqOty(fset, st.X)
				}
			}
			if fd.Body != nil {
				for _, s := range fd.Body.List {
					ot.Stmts = append(ot.Stmts, abstractStmt(fset, s))
				}
			}
		}
	}
	return of, nil
}

func (s *ObsStmt) coq() string {
	switch s.K {
	case "assign":
		return "(SAssign " + core.Hex(s.Field) + ")"
	case "slice":
		return "(SCopySlice " + core.Hex(s.Field) + " " + s.coqTy + ")"
	case "map":
		return "(SCopyMap " + core.Hex(s.Field) + " " + s.coqTy + ")"
	case "into":
		return "(SCallInto " + core.Hex(s.Field) + " " + core.Hex(s.Method) + ")"
	case "copyval":
		return "(SCallCopyVal " + core.Hex(s.Field) + " " + core.Hex(s.Method) + ")"
	case "copyderef":
		return "(SCallCopyDeref " + core.Hex(s.Field) + " " + core.Hex(s.Method) + ")"
	}
	return "(SOther " + core.Hex(s.Text) + ")"
}

func (of *ObsFile) coq() string {
	var imps, ts []string
	for _, im := range of.Imports {
		imps = append(imps, "("+core.Hex(im[0])+", "+core.Hex(im[1])+")")
	}
	for i := range of.Types {
		t := &of.Types[i]
		var fs, ss []string
		for j := range t.Fields {
			f := &t.Fields[j]
			fs = append(fs, fmt.Sprintf("(mk_ofield %s %s %s %s)", core.Hex(f.Name), f.coq, core.Hex(f.Type), core.Hex(f.Tag)))
		}
		for j := range t.Stmts {
			ss = append(ss, t.Stmts[j].coq())
		}
		ts = append(ts, fmt.Sprintf("(mk_otype %s %s %s %s %s %s)", core.Hex(t.Name), t.coqOrigin, t.coqInto, core.CoqBool(t.AsOK), core.CoqList(fs), core.CoqList(ss)))
	}
	return "(ObsFile " + core.CoqList(imps) + " " + core.CoqList(ts) + ")"
}
