package c18

import (
	"fmt"
	"strings"
)

// progSrc is the program linked against the generated package: it reflects over every generated struct and its origin
// struct and executes DeepCopyAs on nil and on filled values.  The property's own observation point.
func progSrc(in *Input, of *ObsFile) string {
	var rows []string
	needOrigin := false
	for i := range of.Types {
		t := &of.Types[i]
		if t.Origin == "" {
			continue
		}
		origin := ""
		switch {
		case strings.Contains(t.Origin, "."):
			origin = "og." + t.Origin[strings.LastIndex(t.Origin, ".")+1:]
			needOrigin = true
		default:
			origin = "tg." + t.Origin
		}
		rows = append(rows, fmt.Sprintf("\t\t{%q, new(tg.%s), new(%s)},", t.Name, t.Name, origin))
	}
	imp := ""
	if needOrigin {
		imp = fmt.Sprintf("\tog %q\n", pkgPathOf(in, "origin"))
	}
	return strings.NewReplacer("@IMPORT@", imp, "@ORIGINPKG@", pkgPathOf(in, "origin"), "@ROWS@", strings.Join(rows, "\n")).Replace(progTemplate)
}

const progTemplate = `package main

import (
	"encoding/json"
	"errors"
	"fmt"
	"os"
	"reflect"
	"strings"
	"time"

@IMPORT@	tg "example.com/m/target"
)

type fieldInfo struct {
	Name     string ` + "`json:\"name\"`" + `
	Type     string ` + "`json:\"type\"`" + `
	Tag      string ` + "`json:\"tag\"`" + `
	Embedded bool   ` + "`json:\"embedded,omitempty\"`" + `
}

type runInfo struct {
	Seed           int      ` + "`json:\"seed\"`" + `
	Panic          string   ` + "`json:\"panic,omitempty\"`" + `
	NilResult      bool     ` + "`json:\"nil_result,omitempty\"`" + `
	RetainedDiff   []string ` + "`json:\"retained_diff,omitempty\"`" + `
	OmittedNonZero []string ` + "`json:\"omitted_nonzero,omitempty\"`" + `
	ReplacedDiff   []string ` + "`json:\"replaced_diff,omitempty\"`" + `
	Unchecked      []string ` + "`json:\"unchecked,omitempty\"`" + `
}

type typeInfo struct {
	Name         string      ` + "`json:\"name\"`" + `
	GenFields    []fieldInfo ` + "`json:\"gen_fields\"`" + `
	OriginFields []fieldInfo ` + "`json:\"origin_fields\"`" + `
	OriginType   string      ` + "`json:\"origin_type\"`" + `
	ResultType   string      ` + "`json:\"result_type\"`" + `
	NilOK        bool        ` + "`json:\"nil_ok\"`" + `
	Runs         []runInfo   ` + "`json:\"runs\"`" + `
}

type stringer struct{ s string }

func (s stringer) String() string { return s.s }

type reader struct{ s string }

func (r *reader) Read(p []byte) (int, error) { return 0, errors.New(r.s) }

type implM struct{ S string }

func (i implM) M() string { return i.S }

func tname(t reflect.Type) string {
	if t.PkgPath() != "" && t.Name() != "" {
		return t.PkgPath() + "." + t.Name()
	}
	switch t.Kind() {
	case reflect.Ptr:
		return "*" + tname(t.Elem())
	case reflect.Slice:
		return "[]" + tname(t.Elem())
	case reflect.Array:
		return fmt.Sprintf("[%d]%s", t.Len(), tname(t.Elem()))
	case reflect.Map:
		return "map[" + tname(t.Key()) + "]" + tname(t.Elem())
	case reflect.Interface:
		if t.NumMethod() == 0 {
			return "any"
		}
	}
	return t.String()
}

func fieldsOf(t reflect.Type) []fieldInfo {
	out := []fieldInfo{}
	for i := 0; i < t.NumField(); i++ {
		f := t.Field(i)
		out = append(out, fieldInfo{Name: f.Name, Type: tname(f.Type), Tag: string(f.Tag), Embedded: f.Anonymous})
	}
	return out
}

var timeType = reflect.TypeOf(time.Time{})

func fill(v reflect.Value, seed int, depth int) {
	if !v.CanSet() {
		return
	}
	if v.Type() == timeType {
		v.Set(reflect.ValueOf(time.Unix(int64(1000+seed), 0).UTC()))
		return
	}
	switch v.Kind() {
	case reflect.Bool:
		v.SetBool(true)
	case reflect.Int, reflect.Int8, reflect.Int16, reflect.Int32, reflect.Int64:
		v.SetInt(int64(3 + seed%50 + depth))
	case reflect.Uint, reflect.Uint8, reflect.Uint16, reflect.Uint32, reflect.Uint64, reflect.Uintptr:
		v.SetUint(uint64(5 + seed%50 + depth))
	case reflect.Float32, reflect.Float64:
		v.SetFloat(1.5 + float64(seed))
	case reflect.Complex64, reflect.Complex128:
		v.SetComplex(complex(1, float64(seed)+1))
	case reflect.String:
		v.SetString(fmt.Sprintf("s%d.%d", seed, depth))
	case reflect.Slice:
		switch seed % 3 {
		case 0:
			// nil
		case 1:
			v.Set(reflect.MakeSlice(v.Type(), 0, 0))
		default:
			s := reflect.MakeSlice(v.Type(), 2, 2)
			fill(s.Index(0), seed+1, depth+1)
			fill(s.Index(1), seed+2, depth+1)
			v.Set(s)
		}
	case reflect.Array:
		for i := 0; i < v.Len(); i++ {
			fill(v.Index(i), seed+i, depth+1)
		}
	case reflect.Map:
		switch seed % 3 {
		case 0:
		case 1:
			v.Set(reflect.MakeMap(v.Type()))
		default:
			m := reflect.MakeMap(v.Type())
			for k := 0; k < 2; k++ {
				kv := reflect.New(v.Type().Key()).Elem()
				fill(kv, seed+7*k+1, depth+1)
				ev := reflect.New(v.Type().Elem()).Elem()
				fill(ev, seed+k+2, depth+1)
				m.SetMapIndex(kv, ev)
			}
			v.Set(m)
		}
	case reflect.Ptr:
		if seed%2 == 1 && depth < 4 {
			p := reflect.New(v.Type().Elem())
			fill(p.Elem(), seed+1, depth+1)
			v.Set(p)
		}
	case reflect.Interface:
		if seed%3 == 0 {
			return
		}
		cands := []any{errors.New(fmt.Sprint("e", seed)), stringer{fmt.Sprint("x", seed)}, &reader{fmt.Sprint("r", seed)}, implM{fmt.Sprint("m", seed)}, seed + 1}
		for _, c := range cands {
			if reflect.TypeOf(c).Implements(v.Type()) {
				v.Set(reflect.ValueOf(c))
				return
			}
		}
	case reflect.Struct:
		for i := 0; i < v.NumField(); i++ {
			fill(v.Field(i), seed+i, depth+1)
		}
	}
}

func safe(f func()) (msg string) {
	defer func() {
		if r := recover(); r != nil {
			msg = fmt.Sprint(r)
		}
	}()
	f()
	return ""
}

func main() {
	rows := []struct {
		name   string
		gen    any
		origin any
	}{
@ROWS@
	}
	var out []typeInfo
	for _, row := range rows {
		gp := reflect.TypeOf(row.gen)
		gt := gp.Elem()
		ot := reflect.TypeOf(row.origin).Elem()
		ti := typeInfo{Name: row.name, GenFields: fieldsOf(gt), OriginFields: fieldsOf(ot), OriginType: tname(ot)}
		m, ok := gp.MethodByName("DeepCopyAs")
		if !ok {
			out = append(out, ti)
			continue
		}
		ti.ResultType = tname(m.Type.Out(0))
		// nil receiver
		if msg := safe(func() {
			r := reflect.Zero(gp).MethodByName("DeepCopyAs").Call(nil)
			ti.NilOK = r[0].IsNil()
		}); msg != "" {
			ti.NilOK = false
		}
		for seed := 0; seed < 5; seed++ {
			ri := runInfo{Seed: seed}
			msg := safe(func() {
				in := reflect.New(gt)
				if seed > 0 {
					fill(in.Elem(), seed, 0)
				}
				res := in.MethodByName("DeepCopyAs").Call(nil)[0]
				if res.IsNil() {
					ri.NilResult = true
					return
				}
				o := res.Elem()
				for i := 0; i < ot.NumField(); i++ {
					of := ot.Field(i)
					gf, has := gt.FieldByName(of.Name)
					switch {
					case !has:
						if !o.Field(i).IsZero() {
							ri.OmittedNonZero = append(ri.OmittedNonZero, of.Name)
						}
					case !o.Field(i).CanInterface():
						ri.Unchecked = append(ri.Unchecked, of.Name)
					case gf.Type == of.Type:
						if !reflect.DeepEqual(in.Elem().FieldByIndex(gf.Index).Interface(), o.Field(i).Interface()) {
							ri.RetainedDiff = append(ri.RetainedDiff, of.Name)
						}
					default:
						// replaced: the replacement's own DeepCopyAs says what the origin field must be
						fv := in.Elem().FieldByIndex(gf.Index)
						mm := fv.Addr().MethodByName("DeepCopyIntoAs")
						if !mm.IsValid() || mm.Type().NumIn() != 1 || mm.Type().NumOut() != 0 || mm.Type().In(0) != reflect.PointerTo(of.Type) {
							ri.Unchecked = append(ri.Unchecked, of.Name)
							continue
						}
						want := reflect.New(of.Type)
						mm.Call([]reflect.Value{want})
						if !reflect.DeepEqual(want.Elem().Interface(), o.Field(i).Interface()) {
							ri.ReplacedDiff = append(ri.ReplacedDiff, of.Name)
						}
					}
				}
			})
			ri.Panic = msg
			ti.Runs = append(ti.Runs, ri)
		}
		out = append(out, ti)
	}
	_ = strings.TrimSpace
	b, _ := json.Marshal(out)
	os.Stdout.Write(b)
}
`
