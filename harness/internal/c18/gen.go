package c18

import (
	"encoding/json"
	"fmt"
	"strings"

	"verifharness/internal/core"
)

// ---- generator ----

func basic(n string) Ty      { return Ty{K: "basic", Name: n} }
func named(pkg, n string) Ty { return Ty{K: "named", Pkg: pkg, Name: n} }
func ptr(e Ty) Ty            { return Ty{K: "ptr", Elem: &e} }
func slice(e Ty) Ty          { return Ty{K: "slice", Elem: &e} }
func array(n int, e Ty) Ty   { return Ty{K: "array", Len: n, Elem: &e} }
func mapOf(k, v Ty) Ty       { return Ty{K: "map", Key: &k, Elem: &v} }
func anyTy() Ty              { return Ty{K: "any"} }
func errTy() Ty              { return Ty{K: "error"} }
func ifaceLit() Ty           { return Ty{K: "ifacelit"} }
func fld(n string, t Ty, tag string) Field {
	return Field{Name: n, Ty: t, Tag: []byte(tag), TagQ: quoteTag([]byte(tag))}
}

var basics = []string{"int", "string", "bool", "float64", "int64", "uint8", "byte", "rune", "uint32", "complex128", "uintptr", "int8"}

var namedMenu = []Ty{
	named("time", "Duration"), named("time", "Time"), named("io", "Reader"), named("fmt", "Stringer"),
	named("origin", "Inner"), named("origin", "Kind"), named("origin", "Iface"), named("origin", "WithAs"),
	named("lib", "Item"), named("lib", "Code"),
}

var keyMenu = []Ty{basic("string"), basic("int"), named("origin", "Kind"), named("lib", "Code"), named("time", "Duration"), basic("bool")}

var tagPieces = []string{
	`json:"a"`, `json:"a.b"`, `yaml:"x,omitempty"`, `json:"name,omitempty" yaml:"name"`, `validate:"@email"`, `fmt:"%s"`, `x:"100%"`,
	".", "[", "]", "@", "%", "%v", "@x", "'", `"`, " ", `\`, "x.y[z]", "[a.b]", "a[.]b", "x.G[int", "a.b[c]", "é", "世界", "\n", "\t", "$", "{}", ":", "=", "+", ",", "-",
	`db:"users.id"`, `mapstructure:",squash"`, `name:"@name'q"`, "pkg/path.Name",
}

var fieldNames = []string{"A", "B", "C", "D", "E", "F", "Name", "ID", "CreatedAt", "X1", "Items", "Meta", "Spec", "Status", "Err", "Val"}

var originPkgs = []string{"origin", "origin", "origin", "origin", "origin", "origin", "origin", "origin", "origin", "origin", "origin", "origin",
	"src", "model", "src", "model", "key", "val", "o", "i", "in", "out"}
var libPkgs = []string{"lib", "lib", "lib", "lib", "lib", "lib", "lib", "lib", "lib", "lib", "lib", "lib", "util", "util", "util", "key", "val", "o", "i", "in", "out"}

var nonStructs = []string{"int", "[]string", "map[string]Inner", "*Inner", "func()", "interface{ M() }", "string", "[2]int", "chan int"}
var rawRHS = []string{"int", "[]string", "map[string]int", "*origin.Inner", "func()", "origin.Kind", "interface{}", "[]origin.Inner", "chan int", "string", "origin.Iface", "error", "any"}

func genTag(r *core.RNG) string {
	switch k := r.Intn(10); {
	case k < 2:
		return ""
	case k < 5:
		return core.Pick(r, tagPieces[:7])
	default:
		var b strings.Builder
		n := 1 + r.Intn(4)
		for i := 0; i < n; i++ {
			b.WriteString(core.Pick(r, tagPieces))
			if r.Chance(30) {
				b.WriteString(" ")
			}
		}
		return b.String()
	}
}

func genElem(r *core.RNG, depth int) Ty {
	switch k := r.Intn(10); {
	case k < 4:
		return basic(core.Pick(r, basics))
	case k < 7:
		return core.Pick(r, namedMenu)
	case k < 8 && depth < 2:
		return ptr(genElem(r, depth+1))
	case k < 9 && depth < 2:
		return slice(genElem(r, depth+1))
	default:
		if r.Bool() {
			return anyTy()
		}
		return basic("string")
	}
}

func genTy(r *core.RNG) Ty {
	switch k := r.Intn(20); {
	case k < 5:
		return basic(core.Pick(r, basics))
	case k < 9:
		return core.Pick(r, namedMenu)
	case k < 12:
		return slice(genElem(r, 0))
	case k < 15:
		return mapOf(core.Pick(r, keyMenu), genElem(r, 0))
	case k < 17:
		return ptr(genElem(r, 1))
	case k < 18:
		return errTy()
	case k < 19:
		t := anyTy()
		if r.Bool() {
			t.Name = "interface{}"
		}
		return t
	default:
		if r.Chance(30) {
			return ifaceLit() // known finding unnamed_method_interface_rendered_any
		}
		return array(1+r.Intn(3), genElem(r, 1))
	}
}

func genStruct(r *core.RNG, name string, n int) OriginType {
	ot := OriginType{Name: name}
	used := map[string]bool{}
	for i := 0; i < n; i++ {
		fn := core.Pick(r, fieldNames)
		for used[fn] {
			fn = fn + "x"
		}
		used[fn] = true
		ty := genTy(r)
		if r.Chance(6) {
			// a field typed through an alias declaration of the origin package (top level: any alias; below: nameable targets)
			if r.Chance(70) {
				ty = core.Pick(r, append(append([]Ty{}, aliasUnnameable...), aliasNameable...))
			} else {
				ty = nestedNameable(r)
			}
		}
		f := fld(fn, ty, genTag(r))
		if r.Chance(15) {
			f.Doc = core.Pick(r, []string{fn + " is documented", "+gengo:whatever=1", "plain words.\nsecond line", "TODO: x"})
		}
		ot.Fields = append(ot.Fields, f)
	}
	return ot
}

func pickDistinct(r *core.RNG, xs []string, not ...string) string {
	for {
		x := core.Pick(r, xs)
		ok := true
		for _, n := range not {
			if x == n {
				ok = false
			}
		}
		if ok {
			return x
		}
	}
}

func subset(r *core.RNG, fs []Field, p int) []string {
	var out []string
	for i := range fs {
		if r.Chance(p) {
			out = append(out, fs[i].Name)
		}
	}
	return out
}

// one random, mostly in-domain input
func genInput(r *core.RNG) Input {
	in := Input{OriginPkg: core.Pick(r, originPkgs)}
	in.LibPkg = pickDistinct(r, libPkgs, in.OriginPkg)
	if r.Chance(25) {
		in.WithAs = r.Intn(5)
	}
	if r.Chance(12) {
		// package clauses unlike the directories (also: like the other package's directory)
		if r.Bool() {
			in.LibDecl = core.Pick(r, []string{"currency", "libv2", in.OriginPkg, "model"})
		}
		if r.Bool() || in.LibDecl == "" {
			in.OriginDecl = core.Pick(r, []string{"model", "api", in.LibPkg, "v1"})
		}
	}
	nTypes := 1 + r.Intn(3)
	for i := 0; i < nTypes; i++ {
		in.Types = append(in.Types, genStruct(r, fmt.Sprintf("T%d", i), 1+r.Intn(6)))
	}
	names := []string{"x", "y", "z", "partial", "userView", "a1", "b", "c"}
	nSpecs := 1
	if r.Chance(35) {
		nSpecs = 2 + r.Intn(2)
	}
	var specs []Spec
	for i := 0; i < nSpecs; i++ {
		s := Spec{Name: names[i], RHS: "sel", Origin: r.Intn(len(in.Types)), Enabled: "plain"}
		if i > 0 {
			s.Name = core.Pick(r, names[1:]) + fmt.Sprint(i) // distinct, lower-case
		}
		if r.Chance(8) {
			s.Enabled = "none"
		}
		ot := &in.Types[s.Origin]
		if r.Chance(60) {
			s.Omit = subset(r, ot.Fields, 35)
			if r.Chance(10) {
				s.Omit = append(s.Omit, core.Pick(r, []string{"Nope", "a b", "", "A B"}))
			}
			if r.Chance(5) {
				s.Omit = subset(r, ot.Fields, 100)
			}
		}
		if s.Enabled == "plain" && len(s.Omit) > 0 && r.Chance(15) {
			s.Enabled = "keyonly"
		}
		if r.Chance(10) {
			s.Replace = append(s.Replace, core.Pick(r, []string{"Nope:string", "bad", "Nope:" + modPath + "/rpl.R json:\"x\"", ":", "Nope: "}))
		}
		specs = append(specs, s)
	}
	// nested partial structs: a field of type origin.T<k> replaced by the generated partial of T<k>
	if len(in.Types) >= 2 && r.Chance(45) {
		host, nest := 0, 1
		f := fld("Nested", named("origin", in.Types[nest].Name), genTag(r))
		in.Types[host].Fields = append(in.Types[host].Fields, f)
		var hs, ns *Spec
		for i := range specs {
			if specs[i].Origin == host && hs == nil && specs[i].Enabled != "none" {
				hs = &specs[i]
			} else if specs[i].Origin == nest && ns == nil && specs[i].Enabled != "none" {
				ns = &specs[i]
			}
		}
		if hs != nil && ns != nil {
			v := "Nested:" + genName(ns.Name)
			if r.Chance(50) {
				v += " " + core.Pick(r, []string{`json:"nested"`, `json:"n.ested" yaml:"q"`, `a.b`, `x:"@y %z"`})
			}
			hs.Replace = append(hs.Replace, v)
		}
	}
	// hand-written replacement for origin.Inner fields
	for i := range specs {
		s := &specs[i]
		for _, f := range in.Types[s.Origin].Fields {
			if f.Ty.K == "named" && f.Ty.Pkg == "origin" && f.Ty.Name == "Inner" && r.Chance(40) {
				v := f.Name + ":" + modPath + "/rpl.R"
				if r.Bool() {
					v += " " + genTag(r)
				}
				s.Replace = append(s.Replace, strings.TrimRight(strings.ReplaceAll(v, "\n", ""), " "))
			}
		}
	}
	// grouping
	if len(specs) > 1 && r.Chance(60) {
		in.Groups = []Group{{Specs: specs}}
	} else {
		for _, s := range specs {
			in.Groups = append(in.Groups, Group{Paren: r.Chance(10), Specs: []Spec{s}})
		}
	}
	return in
}

// ---- several retained fields of ONE named struct type, some of them replaced ----
//
// Whether a field is copied by assignment or through the replacement's DeepCopyIntoAs is decided per FIELD (the replace
// tag names a field), not per type: an origin with two or three fields of the same named struct type of which a
// non-empty proper subset is replaced, in every order, with other fields in between.  kind 0: origin.Inner fields,
// replacement = the hand-written example.com/m/rpl.R; kind 1: origin.T1 fields, replacement = the partial struct
// generated for T1 by a second declaration of the same package.  mask bit i = the i-th same-type field is replaced.
func sameTypeInput(r *core.RNG, kind, k, mask int) Input {
	ft, to := named("origin", "Inner"), modPath+"/rpl.R"
	if kind == 1 {
		ft, to = named("origin", "T1"), "Y"
	}
	names := []string{"Spec", "LastApplied", "Status", "Meta"}
	var fields []Field
	var repl, omit []string
	for i := 0; i < k; i++ {
		if r.Chance(40) {
			fields = append(fields, fld(fmt.Sprintf("B%d", i), core.Pick(r, []Ty{basic("int"), basic("string"), slice(basic("string")), named("time", "Time")}), genTag(r)))
		}
		fields = append(fields, fld(names[i], ft, core.Pick(r, []string{"", `json:"f,omitempty"`, `json:"spec"`})))
		if mask&(1<<i) != 0 {
			v := names[i] + ":" + to
			if r.Bool() {
				v += " " + core.Pick(r, []string{`json:"spec,omitempty"`, `json:"r"`, `yaml:"q" json:"q"`})
			}
			repl = append(repl, v)
		} else if k >= 3 && r.Chance(15) {
			omit = append(omit, names[i])
		}
	}
	if r.Bool() {
		fields = append(fields, fld("Tail", basic("bool"), ""))
	}
	in := Input{OriginPkg: "origin", LibPkg: "lib", Types: []OriginType{{Name: "T0", Fields: fields}},
		Groups: []Group{{Specs: []Spec{{Name: "x", RHS: "sel", Origin: 0, Enabled: "plain", Omit: omit, Replace: repl}}}}}
	if kind == 1 {
		in.Types = append(in.Types, OriginType{Name: "T1", Fields: []Field{fld("X", basic("int"), `json:"x"`), fld("Digest", basic("string"), `json:"digest"`)}})
		y := Spec{Name: "y", RHS: "sel", Origin: 1, Enabled: "plain"}
		if r.Bool() {
			y.Enabled, y.Omit = "keyonly", []string{"Digest"}
		}
		in.Groups = append(in.Groups, Group{Specs: []Spec{y}})
	}
	return in
}

func sameTypeInputs(r *core.RNG, tier string) []Input {
	var out []Input
	for kind := 0; kind < 2; kind++ {
		for mask := 1; mask < 3; mask++ { // two fields, exactly one replaced, both orders
			out = append(out, sameTypeInput(r, kind, 2, mask))
		}
	}
	for mask := 1; mask < 7; mask++ { // three fields, every non-empty proper subset
		if tier == "thorough" {
			out = append(out, sameTypeInput(r, 0, 3, mask), sameTypeInput(r, 1, 3, mask))
		} else {
			out = append(out, sameTypeInput(r, mask%2, 3, mask))
		}
	}
	if tier == "thorough" {
		for kind := 0; kind < 2; kind++ {
			for _, k := range []int{2, 3, 4} { // controls: none / all replaced; four fields
				out = append(out, sameTypeInput(r, kind, k, 0), sameTypeInput(r, kind, k, 1<<k-1))
			}
			for i := 0; i < 8; i++ {
				out = append(out, sameTypeInput(r, kind, 4, 1+r.Intn(14)))
			}
		}
	}
	return out
}

// ---- fields typed through alias declarations of the origin package ----
//
// `type Items = []hid.Item` (hid = <origin>/internal/hid, a package the partial package may not import),
// `type Index = map[string]hidden` (an unexported type), alias of alias, alias of pointer / array / named struct / scalar,
// aliases of types that ARE nameable (lib.Item, []string, time.Duration, origin.Inner, origin.WithAs with its own
// DeepCopyAs methods).  Since Go 1.23 go/types hands the generator a *types.Alias for such a field: the struct must
// spell the alias NAME (the right-hand side may not be writable in the partial package at all) and the copy body must
// compile against it.  Below the top level (`[]origin.LItem`) the dumper prints the right-hand side; that is the same
// type, and fine as long as it can be written (nameable targets; unnameable ones = known finding
// nested_alias_of_unnameable_type).
func alias(name string, rhs Ty) Ty { return Ty{K: "alias", Pkg: "origin", Name: name, Elem: &rhs} }

var (
	hidItem  = named("internal", "Item")
	hidEntry = named("internal", "Entry")
	hidCode  = named("internal", "Code")
	hiddenT  = named("origin", "hidden")
	secretT  = named("origin", "secret")

	aItems = alias("Items", slice(hidItem))
	aItem  = alias("Item", hidItem)
	aH     = alias("H", hiddenT)
	aLItem = alias("LItem", named("lib", "Item"))
	aMyInt = alias("MyInt", basic("int"))
	aNames = alias("Names", slice(basic("string")))
	aInner = alias("InnerA", named("origin", "Inner"))
)

// aliases whose right-hand side mentions a type the partial package cannot name (top-level use only in the passing stream)
var aliasUnnameable = []Ty{
	aItems, alias("Index", mapOf(basic("string"), hidEntry)), aItem, alias("Items2", aItems), alias("PItem", ptr(hidItem)),
	alias("Arr", array(2, hidItem)), alias("HS", slice(hiddenT)), alias("HM", mapOf(basic("string"), hiddenT)), aH,
	alias("HP", ptr(hiddenT)), alias("ByCode", mapOf(hidCode, basic("string"))), alias("Sec", secretT),
	alias("SecIdx", mapOf(secretT, slice(hidItem))), alias("Deep", alias("Deeper", mapOf(basic("int"), ptr(hidEntry)))),
	alias("ItemPtrs", slice(ptr(hidItem))), alias("OfAlias", slice(aItem)),
}

// aliases of types the partial package can name as well
var aliasNameable = []Ty{
	aNames, alias("Labels", mapOf(basic("string"), basic("string"))), alias("LItems", slice(named("lib", "Item"))), aLItem, aMyInt,
	alias("Dur", named("time", "Duration")), aInner, alias("KindA", named("origin", "Kind")), alias("Inners", slice(named("origin", "Inner"))),
	alias("ByKind", mapOf(named("origin", "Kind"), named("lib", "Item"))), alias("WithAsA", named("origin", "WithAs")),
	alias("IfaceA", named("origin", "Iface")), alias("AnyA", anyTy()), alias("PInner", ptr(named("origin", "Inner"))),
	alias("Names2", aNames), alias("Stamp", named("time", "Time")), alias("Pair", array(2, basic("string"))),
}

// composite types with a NAMEABLE alias below the top level: rendered through the right-hand side, same type
func nestedNameable(r *core.RNG) Ty {
	a := core.Pick(r, []Ty{aLItem, aMyInt, aNames, aInner, alias("KindA", named("origin", "Kind")), alias("Dur", named("time", "Duration"))})
	switch r.Intn(5) {
	case 0:
		return slice(a)
	case 1:
		return mapOf(basic("string"), a)
	case 2:
		return ptr(a)
	case 3:
		return array(2, a)
	default:
		return mapOf(core.Pick(r, []Ty{aMyInt, alias("KindA", named("origin", "Kind"))}), slice(a))
	}
}

var aliasTags = []string{"", `json:"items,omitempty"`, `json:"a.b"`, `yaml:"x" json:"x"`}

func aliasInput(r *core.RNG, fields []Field, s Spec) Input {
	s.Name, s.Origin = "x", 0
	if s.RHS == "" {
		s.RHS = "sel"
	}
	if s.Enabled == "" {
		s.Enabled = "plain"
	}
	in := Input{OriginPkg: "origin", LibPkg: "lib", Types: []OriginType{{Name: "T0", Fields: fields}}, Groups: []Group{{Specs: []Spec{s}}}}
	if r.Chance(20) {
		in.WithAs = 1 + r.Intn(4)
	}
	return in
}

func aliasInputs(r *core.RNG, tier string) []Input {
	var out []Input
	afield := func(n string, t Ty) Field { return fld(n, t, core.Pick(r, aliasTags)) }
	// (1) every alias of the two menus as the type of a retained field, next to plain fields (quick: three per struct)
	all := append(append([]Ty{}, aliasUnnameable...), aliasNameable...)
	per := 3
	if tier == "thorough" {
		per = 1
	}
	for i := 0; i < len(all); i += per {
		fields := []Field{fld("Name", basic("string"), `json:"name"`)}
		for k := i; k < i+per && k < len(all); k++ {
			fields = append(fields, afield(fmt.Sprintf("F%d", k-i), all[k]))
		}
		fields = append(fields, fld("Labels", mapOf(basic("string"), basic("string")), ""), fld("Secret", basic("string"), `json:"secret"`))
		s := Spec{Omit: []string{"Secret"}}
		if r.Chance(30) {
			s.Omit = nil
		}
		out = append(out, aliasInput(r, fields, s))
	}
	// (2) the re-export pattern of the property's examples: Items / Index / Item of an internal model package
	out = append(out, aliasInput(r, []Field{fld("Name", basic("string"), `json:"name"`), fld("Items", aItems, `json:"items,omitempty"`),
		fld("Index", alias("Index", mapOf(basic("string"), hidEntry)), `json:"index,omitempty"`), fld("First", aItem, `json:"first"`),
		fld("Secret", basic("string"), `json:"secret"`)}, Spec{Omit: []string{"Secret"}}))
	// (3) an alias-typed field omitted; the same alias twice; a same-package origin (the struct re-declared in the target package)
	out = append(out, aliasInput(r, []Field{fld("A", basic("int"), ""), afield("Items", aItems), afield("More", aItems), afield("H", aH)}, Spec{Omit: []string{"More"}}))
	loc := aliasInput(r, []Field{fld("A", basic("int"), ""), afield("Items", aItems), afield("N", aNames), afield("I", aInner)}, Spec{RHS: "local"})
	out = append(out, loc)
	// (4) nameable aliases below the top level
	nn := 3
	if tier == "thorough" {
		nn = 24
	}
	for i := 0; i < nn; i++ {
		out = append(out, aliasInput(r, []Field{fld("A", basic("int"), `json:"a"`), afield("N", nestedNameable(r)), afield("T", core.Pick(r, all))}, Spec{}))
	}
	// (5) known finding nested_alias_of_unnameable_type: an alias of an unnameable type below the top level
	nested := []Ty{slice(aItem), mapOf(basic("string"), aItem), ptr(aItem), array(2, aH), slice(aItems), mapOf(alias("Sec", secretT), basic("int"))}
	if tier != "thorough" {
		nested = nested[:2]
	}
	for _, t := range nested {
		out = append(out, aliasInput(r, []Field{fld("A", basic("int"), ""), afield("F", t)}, Spec{}))
	}
	// … and the same field omitted: nothing of it is rendered, the rest must be fine
	out = append(out, aliasInput(r, []Field{fld("A", basic("int"), ""), afield("F", slice(aItem)), afield("G", aItems)}, Spec{Omit: []string{"F"}}))
	// (6) known finding replaced_alias_field_assigned: a replace tag on a field typed by an alias of a named struct
	rp := aliasInput(r, []Field{fld("A", basic("int"), ""), fld("Spec", aInner, `json:"spec"`), fld("Status", named("origin", "Inner"), "")},
		Spec{Replace: []string{"Spec:" + modPath + "/rpl.R", "Status:" + modPath + "/rpl.R json:\"status\""}})
	out = append(out, rp)
	if tier == "thorough" {
		rp2 := aliasInput(r, []Field{fld("Spec", alias("InnerB", aInner), "")}, Spec{Replace: []string{"Spec:" + modPath + "/rpl.R"}})
		out = append(out, rp2)
	}
	return out
}

// ---- foreign packages whose `package` clause differs from their directory ----
//
// Legal and common (go-xxx repositories, versioned directories, renamed packages): directory .../money, `package currency`.
// gengo's import tracker derives the local name from the import PATH and the generated file must bind exactly that name
// (`money "…/money"`): an import without a name would bind the DECLARED name (`currency`) and every `money.Amount` in the
// file would be undefined - or, when the declared name is another imported package's directory name, would denote a
// type of the wrong package.  Fields: foreign named types of both packages, as field types and as slice / map / pointer /
// array elements and map keys, replaced and nested ones.
func declNameInput(r *core.RNG, originDecl, libDecl string) Input {
	fields := []Field{
		fld("ID", basic("string"), `json:"id"`),
		fld("Price", named("lib", "Item"), `json:"price"`),
		fld("Discounts", slice(named("lib", "Item")), `json:"discounts,omitempty"`),
		fld("ByCode", mapOf(named("lib", "Code"), core.Pick(r, []Ty{named("lib", "Item"), named("origin", "Inner"), basic("int")})), ""),
		fld("Kind", named("origin", "Kind"), `json:"kind"`),
		fld("CreatedAt", named("time", "Time"), `json:"createdAt"`),
		fld("Secret", basic("string"), `json:"-"`),
	}
	switch r.Intn(4) {
	case 0:
		fields = append(fields, fld("Ptr", ptr(named("lib", "Item")), ""))
	case 1:
		fields = append(fields, fld("Arr", array(2, named("origin", "Inner")), ""), fld("LItem", aLItem, ""))
	case 2:
		fields = fields[:3+r.Intn(4)]
	}
	s := Spec{Name: "order", RHS: "sel", Origin: 0, Enabled: "plain", Omit: []string{"Secret"}}
	in := Input{OriginPkg: "origin", LibPkg: "lib", OriginDecl: originDecl, LibDecl: libDecl,
		Types: []OriginType{{Name: "T0", Fields: fields}}, Groups: []Group{{Specs: []Spec{s}}}}
	if r.Chance(40) {
		in.Types[0].Fields = append(in.Types[0].Fields, fld("Spec", named("origin", "Inner"), `json:"spec"`))
		in.Groups[0].Specs[0].Replace = []string{"Spec:" + modPath + "/rpl.R"}
	}
	return in
}

func declNameInputs(r *core.RNG, tier string) []Input {
	pairs := [][2]string{{"", "currency"}, {"model", ""}, {"model", "currency"}, {"lib", "origin"}, {"", "origin"}, {"lib", ""}, {"time", "fmt"}}
	if tier != "thorough" {
		pairs = pairs[:5]
	}
	var out []Input
	for _, p := range pairs {
		out = append(out, declNameInput(r, p[0], p[1]))
		if tier == "thorough" {
			out = append(out, declNameInput(r, p[0], p[1]), declNameInput(r, p[0], p[1]))
		}
	}
	// other directory names, too
	m := declNameInput(r, "v2model", "gomoney")
	m.OriginPkg, m.LibPkg = "model", "money"
	out = append(out, m)
	return out
}

// ---- declarations that cannot be sources, enabled ONLY through a sub-key tag ----
//
// `+gengo:partialstruct:omit=…` or `:replace=…` alone enables the generator for a declaration just as the plain
// `+gengo:partialstruct` line does (gengo.IsGeneratorEnabled; proper sources enabled that way generate).  A declaration
// enabled that way that is not a struct (`type roleForUpdate origin.Role`, Role an int), a struct literal, or any other
// right-hand side must be reported as an error too - alone and next to valid sources of the same package, which are
// visited before or after it.
func keyOnlyErrorInput(r *core.RNG, what, sub, neighbour int) Input {
	in := Input{OriginPkg: "origin", LibPkg: "lib", Types: []OriginType{
		{Name: "T0", Fields: []Field{fld("A", basic("int"), `json:"a"`), fld("Password", basic("string"), `json:"password"`), fld("Spec", named("origin", "Inner"), "")}}}}
	bad := Spec{Name: "roleForUpdate", Enabled: "keyonly", Origin: 0}
	switch what {
	case 0: // defined from a named type that is not a struct
		in.Types = append(in.Types, OriginType{Name: "Role", NonStruct: core.Pick(r, nonStructs)})
		bad.RHS, bad.Origin = "sel", 1
	case 1: // a struct, but a literal
		bad.RHS = "lit"
	default: // neither
		bad.RHS, bad.Raw = "raw", core.Pick(r, rawRHS)
	}
	switch sub {
	case 0:
		bad.Omit = []string{core.Pick(r, []string{"Password", "A", "Nope"})}
	case 1:
		bad.Replace = []string{"Spec:" + modPath + "/rpl.R"}
	default:
		bad.Omit, bad.Replace = []string{"Password"}, []string{"Spec:" + modPath + "/rpl.R json:\"spec\""}
	}
	specs := []Spec{bad}
	if neighbour != 0 {
		ok := Spec{Name: "accountForUpdate", RHS: "sel", Origin: 0, Enabled: core.Pick(r, []string{"plain", "keyonly"}), Omit: []string{"Password"}}
		if neighbour == 2 { // visited after the wrong declaration (names are visited in sorted order)
			ok.Name = "zAccount"
		}
		specs = append(specs, ok)
		if r.Bool() {
			specs[0], specs[1] = specs[1], specs[0]
		}
	}
	if len(specs) > 1 && r.Bool() {
		in.Groups = []Group{{Specs: specs}}
	} else {
		for _, s := range specs {
			in.Groups = append(in.Groups, Group{Specs: []Spec{s}})
		}
	}
	return in
}

func keyOnlyErrorInputs(r *core.RNG, tier string) []Input {
	var out []Input
	k := 0
	for what := 0; what < 3; what++ {
		for sub := 0; sub < 3; sub++ {
			if tier == "thorough" {
				for nb := 0; nb < 3; nb++ {
					out = append(out, keyOnlyErrorInput(r, what, sub, nb), keyOnlyErrorInput(r, what, sub, nb))
				}
				continue
			}
			if sub == 2 && what != 0 {
				continue
			}
			out = append(out, keyOnlyErrorInput(r, what, sub, 0), keyOnlyErrorInput(r, what, sub, 1+k%2))
			k++
		}
	}
	return out
}

// the malformed / error stream: declarations that must be reported as errors
func genErrorInput(r *core.RNG) Input {
	in := genInput(r)
	fl := in.flat()
	s := fl[r.Intn(len(fl))].S
	s.Enabled = "plain"
	defer func() {
		// enabled only through a sub-key tag (no plain +gengo:partialstruct line) in two cases of five
		if r.Chance(40) {
			s.Enabled = "keyonly"
			if len(s.Omit) == 0 && len(s.Replace) == 0 {
				if r.Bool() {
					s.Omit = []string{core.Pick(r, []string{"A", "Password", "X1"})}
				} else {
					s.Replace = []string{"Spec:" + modPath + "/rpl.R"}
				}
			}
		}
	}()
	switch r.Intn(4) {
	case 0:
		s.RHS = "lit"
	case 1:
		in.Types = append(in.Types, OriginType{Name: fmt.Sprintf("N%d", len(in.Types)), NonStruct: core.Pick(r, nonStructs)})
		s.Origin = len(in.Types) - 1
		s.Omit, s.Replace = nil, nil
	case 2:
		s.RHS, s.Raw = "raw", core.Pick(r, rawRHS)
		s.Omit, s.Replace = nil, nil
	default:
		in.Types = append(in.Types, OriginType{Name: fmt.Sprintf("N%d", len(in.Types)), NonStruct: core.Pick(r, nonStructs)})
		s.Origin = len(in.Types) - 1
		s.RHS = "lit"
		s.Omit, s.Replace = nil, nil
	}
	return in
}

// the notes stream: inputs outside the generator's domain (observations (b)-(d) and friends); never violations
func genNotesInput(r *core.RNG) Input {
	in := genInput(r)
	fl := in.flat()
	s := fl[r.Intn(len(fl))].S
	s.Enabled = "plain"
	ot := &in.Types[s.Origin]
	switch r.Intn(7) {
	case 0: // (b) replace on a non-struct field
		f := ot.Fields[r.Intn(len(ot.Fields))]
		s.Replace = append(s.Replace, f.Name+":"+core.Pick(r, []string{"[]string", "string", "time.Duration", "*" + modPath + "/rpl.R", "map[string]int"}))
	case 1: // (c) unexported field of a foreign origin, retained
		ot.Fields = append(ot.Fields, fld(core.Pick(r, []string{"u", "priv", "_"}), basic("int"), `json:"-"`))
	case 2: // (d) embedded fields: still mirrored as named fields — stays inside the domain
		e := core.Pick(r, []Ty{named("time", "Time"), ptr(named("origin", "Inner")), named("origin", "Inner"), named("lib", "Item")})
		n := e.Name
		if e.K == "ptr" {
			n = e.Elem.Name
		}
		f := fld(n, e, genTag(r))
		f.Embedded = true
		ot.Fields = append(ot.Fields, f)
	case 3: // exotic tag text: only writable as an interpreted string literal
		i := r.Intn(len(ot.Fields))
		ot.Fields[i].Tag = []byte(core.Pick(r, []string{"a\rb", "x\x00y", "\xff\xfe", "a`b", "\ufeffbom"}))
		ot.Fields[i].TagQ = quoteTag(ot.Fields[i].Tag)
	case 4: // declared name already exported / not lower-case ASCII
		s.Name = core.Pick(r, []string{"X", "_x", "Partial"})
	case 5: // same-package origin (its own copy of the type: it may mention target-package types)
		cp := clone(&in).Types[s.Origin]
		cp.Name = fmt.Sprintf("T%d", len(in.Types))
		in.Types = append(in.Types, cp)
		s.Origin = len(in.Types) - 1
		ot = &in.Types[s.Origin]
		s.RHS = "local"
		if r.Bool() {
			// LIface / LMap: the helper's InSamePkg branch treats interface and map types differently (agreement with C17's model)
			ot.Fields = append(ot.Fields, fld("Loc", named("target", core.Pick(r, []string{"LInner", "LInner", "LIface", "LMap"})), ""))
		}
		if r.Bool() {
			ot.Fields = append(ot.Fields, fld("u", basic("int"), `k:"v"`))
		}
	default: // replace with extra-odd values
		f := ot.Fields[r.Intn(len(ot.Fields))]
		s.Replace = append(s.Replace, f.Name+":"+core.Pick(r, []string{"Y  json:\"a\"", "a.b.C", "x/y.Z", "Unknown"}))
	}
	return in
}

func marshal(in Input) json.RawMessage {
	for t := range in.Types {
		for f := range in.Types[t].Fields {
			fd := &in.Types[t].Fields[f]
			fd.TagQ = quoteTag(fd.Tag)
		}
	}
	b, _ := json.Marshal(in)
	return b
}

// fixed corner cases: the inputs the property text names and the section-4 defects
func corners() []Input {
	one := func(fields []Field, s Spec) Input {
		s.Name, s.RHS, s.Origin, s.Enabled = "x", "sel", 0, "plain"
		return Input{OriginPkg: "origin", LibPkg: "lib", Types: []OriginType{{Name: "T0", Fields: fields}}, Groups: []Group{{Specs: []Spec{s}}}}
	}
	var out []Input
	out = append(out, one([]Field{fld("A", basic("int"), `json:"a"`), fld("B", slice(basic("string")), `json:"b,omitempty"`)}, Spec{Omit: []string{"B"}}))
	out = append(out, one([]Field{fld("A", basic("int"), `json:"a.b" yaml:"x"`)}, Spec{})) // #25
	out = append(out, one([]Field{fld("A", basic("int"), `a.b`)}, Spec{}))                 // #25 (parses, bogus import)
	out = append(out, one([]Field{fld("A", basic("int"), `x.G[int`)}, Spec{}))             // #25 (panic: invalid type ref)
	out = append(out, one([]Field{fld("A", basic("int"), "[a.b]")}, Spec{}))
	out = append(out, one([]Field{fld("A", basic("int"), ".a[b.c]")}, Spec{}))                             // no split: leading dot
	out = append(out, one([]Field{fld("X", basic("int"), ""), fld("Err", errTy(), `json:"err"`)}, Spec{})) // #15, #23
	out = append(out, one([]Field{fld("A", anyTy(), `@x %v 'q' "d"`), fld("R", named("io", "Reader"), "")}, Spec{}))
	out = append(out, one([]Field{fld("A", basic("int"), ""), fld("F", ifaceLit(), `json:"f"`)}, Spec{})) // known finding: method interface
	out = append(out, one([]Field{fld("A", basic("int"), ""), fld("F", ifaceLit(), `json:"f"`)}, Spec{Omit: []string{"F"}}))
	// same-package origin with a field of a same-package struct / interface / map type (helper: InSamePkg branch)
	for _, ln := range []string{"LInner", "LIface", "LMap"} {
		l := one([]Field{fld("A", basic("int"), ""), fld("Loc", named("target", ln), `json:"loc"`)}, Spec{})
		l.Groups[0].Specs[0].RHS = "local"
		out = append(out, l)
	}
	// #31 grouped declaration
	g := Input{OriginPkg: "origin", LibPkg: "lib", Types: []OriginType{
		{Name: "T0", Fields: []Field{fld("A", basic("int"), `json:"a"`), fld("B", slice(basic("string")), "")}},
		{Name: "T1", Fields: []Field{fld("X", basic("int"), `json:"x"`), fld("Y", basic("float64"), "")}}},
		Groups: []Group{{Specs: []Spec{{Name: "a", RHS: "sel", Origin: 0, Enabled: "plain"}, {Name: "b", RHS: "sel", Origin: 1, Enabled: "plain"}}}}}
	out = append(out, g)
	// #33 import names shadowed by template locals
	for _, p := range []string{"o", "i", "in", "out", "key", "val"} {
		s := one([]Field{fld("A", basic("int"), ""), fld("M", mapOf(basic("string"), named("origin", "Inner")), ""), fld("S", slice(named("lib", "Item")), "")}, Spec{})
		s.OriginPkg = p
		out = append(out, s)
		l := one([]Field{fld("S", slice(named("lib", "Item")), "")}, Spec{})
		l.LibPkg = p
		out = append(out, l)
	}
	// error cases
	lit := one([]Field{fld("A", basic("int"), "")}, Spec{})
	lit.Groups[0].Specs[0].RHS = "lit"
	out = append(out, lit)
	for _, ns := range nonStructs {
		e := one(nil, Spec{})
		e.Types = []OriginType{{Name: "N0", NonStruct: ns}}
		out = append(out, e)
	}
	for _, raw := range rawRHS {
		e := one([]Field{fld("A", basic("int"), "")}, Spec{})
		e.Groups[0].Specs[0].RHS, e.Groups[0].Specs[0].Raw = "raw", raw
		out = append(out, e)
	}
	// nested partial + hand-written replacement + all four statement selections of named fields
	n := Input{OriginPkg: "origin", LibPkg: "lib", Types: []OriginType{
		{Name: "T0", Fields: []Field{fld("A", basic("int"), `json:"a"`), fld("N", named("origin", "T1"), `json:"n"`), fld("I", named("origin", "Inner"), `json:"i"`), fld("P", ptr(named("origin", "Inner")), "")}},
		{Name: "T1", Fields: []Field{fld("X", basic("int"), `json:"x"`), fld("Y", basic("string"), `json:"y"`)}}},
		Groups: []Group{{Specs: []Spec{{Name: "x", RHS: "sel", Origin: 0, Enabled: "plain", Replace: []string{"N:Y json:\"nn\" yaml:\"q.r\"", "I:" + modPath + "/rpl.R"}}}},
			{Specs: []Spec{{Name: "y", RHS: "sel", Origin: 1, Enabled: "keyonly", Omit: []string{"X"}}}}}}
	out = append(out, n)
	for v := 1; v <= 4; v++ {
		w := one([]Field{fld("W", named("origin", "WithAs"), `json:"w"`), fld("D", named("time", "Duration"), "")}, Spec{})
		w.WithAs = v
		out = append(out, w)
	}
	// blank fields: mirrored as `_ T`, passed over by the copy loop (repair adc955a); also a blank container and an omitted blank
	out = append(out, one([]Field{fld("A", basic("int"), `json:"a"`), fld("_", basic("int"), `json:"-"`), fld("B", slice(basic("string")), "")}, Spec{}))
	out = append(out, one([]Field{fld("_", slice(named("lib", "Item")), ""), fld("A", named("origin", "Inner"), ""), fld("_", basic("bool"), `pad:"1"`)}, Spec{}))
	out = append(out, one([]Field{fld("A", basic("int"), ""), fld("_", mapOf(basic("string"), basic("int")), "")}, Spec{Omit: []string{"_"}}))
	bl := one([]Field{fld("A", basic("int"), ""), fld("_", aItems, ""), fld("_", basic("int"), "")}, Spec{})
	bl.Groups[0].Specs[0].RHS = "local"
	out = append(out, bl)
	// everything omitted; nothing enabled
	out = append(out, one([]Field{fld("A", basic("int"), ""), fld("B", basic("string"), "")}, Spec{Omit: []string{"A", "B"}}))
	d := one([]Field{fld("A", basic("int"), "")}, Spec{})
	d.Groups[0].Specs[0].Enabled = "none"
	out = append(out, d)
	return out
}

func (prop) Generate(r *core.RNG, tier string) []json.RawMessage {
	n := 80
	if tier == "thorough" {
		n = 900
	}
	var out []json.RawMessage
	for _, c := range corners() {
		out = append(out, marshal(c))
	}
	for _, c := range sameTypeInputs(r.Fork(), tier) {
		out = append(out, marshal(c))
	}
	for _, c := range keyOnlyErrorInputs(r.Fork(), tier) {
		out = append(out, marshal(c))
	}
	for _, c := range aliasInputs(r.Fork(), tier) {
		out = append(out, marshal(c))
	}
	for _, c := range declNameInputs(r.Fork(), tier) {
		out = append(out, marshal(c))
	}
	for i := 0; i < n; i++ {
		switch k := r.Intn(100); {
		case k < 10:
			out = append(out, marshal(genErrorInput(r)))
		case k < 24:
			out = append(out, marshal(genNotesInput(r)))
		default:
			out = append(out, marshal(genInput(r)))
		}
	}
	if tier == "thorough" {
		// exhaustive small scope 1: every omit subset x every replace choice over a fixed 3-field struct
		fields := []Field{fld("A", basic("int"), `json:"a"`), fld("I", named("origin", "T1"), `json:"i.j"`), fld("S", slice(named("lib", "Item")), `s`)}
		repls := [][]string{nil, {"I:Y"}, {"I:Y json:\"r.s\""}, {"I:Y", "I:Y x:\"last wins\""}}
		for mask := 0; mask < 8; mask++ {
			for _, rp := range repls {
				var omit []string
				for b := 0; b < 3; b++ {
					if mask&(1<<b) != 0 {
						omit = append(omit, fields[b].Name)
					}
				}
				in := Input{OriginPkg: "origin", LibPkg: "lib", Types: []OriginType{{Name: "T0", Fields: fields},
					{Name: "T1", Fields: []Field{fld("X", basic("int"), "")}}},
					Groups: []Group{{Specs: []Spec{{Name: "x", RHS: "sel", Origin: 0, Enabled: "plain", Omit: omit, Replace: rp}}},
						{Specs: []Spec{{Name: "y", RHS: "sel", Origin: 1, Enabled: "plain"}}}}}
				out = append(out, marshal(in))
			}
		}
		// exhaustive small scope 2: every type of the menu alone x a few hostile tags
		var tys []Ty
		for _, b := range basics {
			tys = append(tys, basic(b))
		}
		tys = append(tys, namedMenu...)
		tys = append(tys, errTy(), anyTy())
		var comp []Ty
		for _, e := range tys {
			comp = append(comp, ptr(e), slice(e), array(2, e), mapOf(basic("string"), e))
		}
		tys = append(tys, comp...)
		tags := []string{"", `json:"a.b"`, "x.y[z] @q %d 'r'", "a\nb"}
		for i, t := range tys {
			in := Input{OriginPkg: "origin", LibPkg: "lib", WithAs: i % 5, Types: []OriginType{{Name: "T0", Fields: []Field{fld("F", t, tags[i%len(tags)]), fld("G", basic("int"), tags[(i+1)%len(tags)])}}},
				Groups: []Group{{Specs: []Spec{{Name: "x", RHS: "sel", Origin: 0, Enabled: "plain"}}}}}
			out = append(out, marshal(in))
		}
	}
	return out
}

// ---- shrinking ----

func clone(in *Input) Input {
	b, _ := json.Marshal(in)
	var c Input
	_ = json.Unmarshal(b, &c)
	return c
}

func (prop) Shrink(raw json.RawMessage) []json.RawMessage {
	var in Input
	if json.Unmarshal(raw, &in) != nil {
		return nil
	}
	var out []json.RawMessage
	add := func(c Input) {
		b := marshal(c)
		if string(b) != string(raw) {
			out = append(out, b)
		}
	}
	// drop a spec / group
	for g := range in.Groups {
		if len(in.Groups) > 1 {
			c := clone(&in)
			c.Groups = append(c.Groups[:g], c.Groups[g+1:]...)
			add(c)
		}
		for i := range in.Groups[g].Specs {
			if len(in.Groups[g].Specs) > 1 {
				c := clone(&in)
				c.Groups[g].Specs = append(c.Groups[g].Specs[:i], c.Groups[g].Specs[i+1:]...)
				add(c)
			}
		}
	}
	// drop a field
	for t := range in.Types {
		for f := range in.Types[t].Fields {
			c := clone(&in)
			c.Types[t].Fields = append(c.Types[t].Fields[:f], c.Types[t].Fields[f+1:]...)
			add(c)
		}
	}
	// simplify tags, types, docs
	for t := range in.Types {
		for f := range in.Types[t].Fields {
			fd := &in.Types[t].Fields[f]
			if len(fd.Tag) > 0 {
				c := clone(&in)
				c.Types[t].Fields[f].Tag = []byte{}
				add(c)
				if len(fd.Tag) > 1 {
					c = clone(&in)
					c.Types[t].Fields[f].Tag = fd.Tag[:len(fd.Tag)/2]
					add(c)
					c = clone(&in)
					c.Types[t].Fields[f].Tag = fd.Tag[len(fd.Tag)/2:]
					add(c)
				}
			}
			if fd.Ty.Elem != nil && !fd.Embedded {
				c := clone(&in)
				c.Types[t].Fields[f].Ty = *fd.Ty.Elem
				add(c)
			}
			if fd.Ty.K != "basic" && !fd.Embedded {
				c := clone(&in)
				c.Types[t].Fields[f].Ty = basic("int")
				add(c)
			}
			if fd.Doc != "" {
				c := clone(&in)
				c.Types[t].Fields[f].Doc = ""
				add(c)
			}
		}
	}
	// drop omit / replace entries
	for g := range in.Groups {
		for i := range in.Groups[g].Specs {
			s := &in.Groups[g].Specs[i]
			for k := range s.Omit {
				c := clone(&in)
				cs := &c.Groups[g].Specs[i]
				cs.Omit = append(cs.Omit[:k], cs.Omit[k+1:]...)
				add(c)
			}
			for k := range s.Replace {
				c := clone(&in)
				cs := &c.Groups[g].Specs[i]
				cs.Replace = append(cs.Replace[:k], cs.Replace[k+1:]...)
				add(c)
			}
			if s.Enabled == "keyonly" {
				c := clone(&in)
				c.Groups[g].Specs[i].Enabled = "plain"
				add(c)
			}
		}
	}
	if in.OriginPkg != "origin" && in.LibPkg != "origin" {
		c := clone(&in)
		c.OriginPkg = "origin"
		add(c)
	}
	if in.LibPkg != "lib" && in.OriginPkg != "lib" {
		c := clone(&in)
		c.LibPkg = "lib"
		add(c)
	}
	if in.WithAs != 0 {
		c := clone(&in)
		c.WithAs = 0
		add(c)
	}
	if in.OriginDecl != "" {
		c := clone(&in)
		c.OriginDecl = ""
		add(c)
	}
	if in.LibDecl != "" {
		c := clone(&in)
		c.LibDecl = ""
		add(c)
	}
	// drop the last origin type if nothing refers to it
	if k := len(in.Types) - 1; k > 0 {
		usedT := false
		for _, fs := range in.flat() {
			if fs.S.Origin == k {
				usedT = true
			}
		}
		for t := range in.Types {
			for _, f := range in.Types[t].Fields {
				ps := f.Ty
				if strings.Contains(fmt.Sprint(ps.coq(&in)), core.Hex(in.Types[k].Name)) {
					usedT = true
				}
			}
		}
		if !usedT {
			c := clone(&in)
			c.Types = c.Types[:k]
			add(c)
		}
	}
	return out
}
