package c12

// The concurrency pass (seeded change C12-h): "Doc returns exactly the lines ..." is a statement about every call,
// also about the FIRST calls on a package when they come from several goroutines at once (a generator that fans
// out over the types of a loaded universe).  Whatever Doc/Comment read must therefore be complete when Load
// returns, or be built behind a lock; an index built lazily behind a plain nil check hands the losers of the race
// a half-filled map (no doc / no tags / no trailing comment) or makes the runtime abort the process
// ("concurrent map read and map write" cannot be recovered).
//
// For a layout case that carries a ConcSpec the printed files are written Copies+1 times as packages q000, q001, ...
// of one module; a supervised child (vh c12-conc) loads them all with ONE types.Load - every copy is a freshly
// loaded package nobody has asked yet -, asks copy 0 sequentially (the reference: the same questions the
// in-process pass puts to the model and to the property predicate), and for every other copy releases G goroutines
// from a spin barrier that put the first Doc/Comment questions on that copy, each goroutine in an order of its own.
// Every answer must be the answer of the reference.  A child that dies is a violation for every call it made.

import (
	"bytes"
	"context"
	"encoding/json"
	"fmt"
	"go/ast"
	"go/token"
	"os"
	"os/exec"
	"path/filepath"
	"runtime"
	"runtime/debug"
	"sort"
	"strings"
	"sync"
	"sync/atomic"
	"time"

	gtypes "github.com/octohelm/gengo/pkg/types"

	"verifharness/internal/core"
)

// ConcSpec asks for the concurrency pass on a layout case.
type ConcSpec struct {
	G      int `json:"g"`      // goroutines per copy
	Copies int `json:"copies"` // fresh packages asked concurrently (one trial each)
}

const concModule = "example.com/c12c"

func concPkg(k int) string { return fmt.Sprintf("q%03d", k) }

func init() { core.Children["c12-conc"] = concChild }

// concAnswer is what one Doc + Comment pair returned.
type concAnswer struct {
	Tags    map[string][]string `json:"tags,omitempty"`
	Doc     []string            `json:"doc"`
	Comment []string            `json:"comment"`
	Panic   string              `json:"panic,omitempty"`
}

func (a concAnswer) key() string {
	b, _ := json.Marshal(a) // encoding/json sorts map keys
	return string(b)
}

type concBad struct {
	Name      string     `json:"name"`
	File      string     `json:"file"` // base name the position is reported under
	Line      int        `json:"line"`
	Col       int        `json:"col"`
	Copy      int        `json:"copy"`
	Goroutine int        `json:"goroutine"`
	Got       concAnswer `json:"got"`
	Want      concAnswer `json:"want"`
}

type concOut struct {
	Copies     int       `json:"copies"`
	Goroutines int       `json:"goroutines"`
	Queries    int       `json:"queries"`
	Calls      int       `json:"calls"`
	Wrong      int       `json:"wrong"`
	Bad        []concBad `json:"bad,omitempty"`
	Err        string    `json:"err,omitempty"`
}

// concQueries lists the positions Doc/Comment are asked with: every declared name of the package (types, constants,
// variables, struct fields, interface methods, parameters, functions; an embedded field is asked at its type), in
// ast.Inspect order.  Only the syntax trees are read - no question is put to the package.
func concQueries(pkg gtypes.Package) []qpos {
	var qs []qpos
	for _, f := range pkg.Files() {
		ast.Inspect(f, func(n ast.Node) bool {
			switch x := n.(type) {
			case *ast.FuncDecl:
				qs = append(qs, qpos{x.Name.Name, x.Name.Pos()})
			case *ast.ValueSpec:
				for _, id := range x.Names {
					qs = append(qs, qpos{id.Name, id.Pos()})
				}
			case *ast.TypeSpec:
				qs = append(qs, qpos{x.Name.Name, x.Name.Pos()})
			case *ast.Field:
				for _, id := range x.Names {
					qs = append(qs, qpos{id.Name, id.Pos()})
				}
				if len(x.Names) == 0 {
					qs = append(qs, qpos{"(embedded)", x.Pos()})
				}
			}
			return true
		})
	}
	return qs
}

func concAsk(pkg gtypes.Package, pos token.Pos, commentFirst bool) (a concAnswer) {
	defer func() {
		if e := recover(); e != nil {
			a = concAnswer{Panic: fmt.Sprint(e)}
		}
	}()
	if commentFirst {
		a.Comment = cloneLines(pkg.Comment(pos))
	}
	t, d := pkg.Doc(pos)
	a.Tags, a.Doc = cloneTags(t), cloneLines(d)
	if !commentFirst {
		a.Comment = cloneLines(pkg.Comment(pos))
	}
	if len(a.Tags) == 0 {
		a.Tags = nil
	}
	if a.Doc == nil {
		a.Doc = []string{}
	}
	if a.Comment == nil {
		a.Comment = []string{}
	}
	return a
}

// concChild: vh c12-conc <module dir> <copies> <goroutines>
func concChild(args []string) int {
	var out concOut
	finish := func() int {
		b, _ := json.Marshal(out)
		fmt.Println("RESULT " + string(b))
		return 0
	}
	if len(args) < 3 {
		fmt.Fprintln(os.Stderr, "usage: vh c12-conc <dir> <copies> <goroutines>")
		return 2
	}
	dir := args[0]
	fmt.Sscan(args[1], &out.Copies)
	fmt.Sscan(args[2], &out.Goroutines)
	G := out.Goroutines
	if G < 2 {
		G = 2
	}
	if runtime.GOMAXPROCS(0) < G {
		runtime.GOMAXPROCS(G)
	}
	debug.SetGCPercent(400)
	var patterns []string
	for k := 0; k <= out.Copies; k++ {
		patterns = append(patterns, concModule+"/"+concPkg(k))
	}
	u, err := gtypes.Load(patterns, gtypes.WithDir(dir))
	if err != nil {
		out.Err = "load: " + err.Error()
		return finish()
	}
	ref := u.Package(patterns[0])
	if ref == nil {
		out.Err = "reference package not loaded"
		return finish()
	}
	type at struct {
		file      string
		line, col int
	}
	where := func(pkg gtypes.Package, pos token.Pos) at {
		pp := pkg.Position(pos)
		return at{filepath.Base(pp.Filename), pp.Line, pp.Column}
	}
	refQ := concQueries(ref)
	out.Queries = len(refQ)
	want := make([]concAnswer, len(refQ))
	wantKey := make([]string, len(refQ))
	for i, q := range refQ {
		want[i] = concAsk(ref, q.pos, false)
		wantKey[i] = want[i].key()
	}
	n := len(refQ)
	if n == 0 {
		return finish()
	}
	for k := 1; k <= out.Copies; k++ {
		pkg := u.Package(patterns[k])
		if pkg == nil {
			out.Err = "copy not loaded: " + patterns[k]
			return finish()
		}
		qs := concQueries(pkg)
		if len(qs) != n {
			out.Err = fmt.Sprintf("copy %d declares %d names, the reference %d", k, len(qs), n)
			return finish()
		}
		for i := range qs {
			if qs[i].name != refQ[i].name || where(pkg, qs[i].pos) != where(ref, refQ[i].pos) {
				out.Err = fmt.Sprintf("copy %d: name %d is not at the position of the reference", k, i)
				return finish()
			}
		}
		got := make([][]concAnswer, G)
		var arrived atomic.Int32
		var wg sync.WaitGroup
		for g := 0; g < G; g++ {
			got[g] = make([]concAnswer, n)
			wg.Add(1)
			go func(g int) {
				defer wg.Done()
				// an order per goroutine; in every second trial all goroutines start with the same name
				step := []int{1, n - 1}[g%2]
				if step == 0 {
					step = 1
				}
				i := 0
				if k%2 == 0 {
					i = (g * 7) % n
				}
				// spin barrier: all goroutines put their first question within a few hundred nanoseconds
				arrived.Add(1)
				for spins := 0; int(arrived.Load()) < G; spins++ {
					if spins%256 == 255 {
						runtime.Gosched()
					}
				}
				for c := 0; c < n; c++ {
					got[g][i] = concAsk(pkg, qs[i].pos, (g/2)%2 == 1)
					i = (i + step) % n
				}
			}(g)
		}
		wg.Wait()
		for g := 0; g < G; g++ {
			for i := range qs {
				out.Calls++
				if got[g][i].key() != wantKey[i] {
					out.Wrong++
					if len(out.Bad) < 6 {
						w := where(ref, refQ[i].pos)
						out.Bad = append(out.Bad, concBad{Name: qs[i].name, File: w.file, Line: w.line, Col: w.col,
							Copy: k, Goroutine: g, Got: got[g][i], Want: want[i]})
					}
				}
			}
		}
	}
	return finish()
}

// concPass runs the child on the printed sources.  It returns the child's report; died != "" when the child did not
// finish (the head of its stderr).
func concPass(spec *ConcSpec, sources []string, scratch string) (out concOut, died string, note string) {
	g, copies := spec.G, spec.Copies
	if g < 2 {
		g = 2
	}
	if g > 64 {
		g = 64
	}
	if copies < 1 {
		copies = 1
	}
	if copies > 200 {
		copies = 200
	}
	dir := filepath.Join(scratch, "conc")
	if err := os.MkdirAll(dir, 0o755); err != nil {
		return out, "", "concurrency pass skipped: " + err.Error()
	}
	_ = os.WriteFile(filepath.Join(dir, "go.mod"), []byte("module "+concModule+"\n\ngo 1.24.2\n"), 0o644)
	for k := 0; k <= copies; k++ {
		pd := filepath.Join(dir, concPkg(k))
		_ = os.MkdirAll(pd, 0o755)
		for i, src := range sources {
			if err := os.WriteFile(filepath.Join(pd, fileName(i)), []byte(src), 0o644); err != nil {
				return out, "", "concurrency pass skipped: " + err.Error()
			}
		}
	}
	exe, err := os.Executable()
	if err != nil {
		return out, "", "concurrency pass skipped: " + err.Error()
	}
	ctx, cancel := context.WithTimeout(context.Background(), 300*time.Second)
	defer cancel()
	cmd := exec.CommandContext(ctx, exe, "c12-conc", dir, fmt.Sprint(copies), fmt.Sprint(g))
	cmd.Env = append(os.Environ(), "GOFLAGS=-mod=mod", "GOPROXY=off")
	var ob, eb bytes.Buffer
	cmd.Stdout, cmd.Stderr = &ob, &eb
	rerr := cmd.Run()
	for _, l := range strings.Split(ob.String(), "\n") {
		if strings.HasPrefix(l, "RESULT ") && json.Unmarshal([]byte(l[7:]), &out) == nil {
			return out, "", ""
		}
	}
	if ctx.Err() != nil {
		return out, "the child did not finish within 300 s", ""
	}
	head := eb.String()
	if i := strings.Index(head, "fatal error:"); i >= 0 {
		head = head[i:]
	}
	if i := strings.IndexByte(head, '\n'); i >= 0 {
		head = head[:i]
	}
	if len(head) > 300 {
		head = head[:300]
	}
	return out, fmt.Sprintf("%v: %s", rerr, strings.TrimSpace(head)), ""
}

func (a concAnswer) show() string {
	var ks []string
	for k := range a.Tags {
		ks = append(ks, k)
	}
	sort.Strings(ks)
	var ts []string
	for _, k := range ks {
		ts = append(ts, fmt.Sprintf("%s=%q", k, a.Tags[k]))
	}
	if a.Panic != "" {
		return "panic: " + a.Panic
	}
	return fmt.Sprintf("doc=%q tags={%s} comment=%q", a.Doc, strings.Join(ts, " "), a.Comment)
}
