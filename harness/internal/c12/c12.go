// Package c12: doc / trailing comments / tags are attributed to the right declaration.
//
// Two kinds of cases:
//
//	tags   - ExtractCommentTags on a list of lines with a marker set;
//	layout - a synthetic package printed from a layout (declarations with doc / detached /
//	         trailing comments), loaded with the real types.Load; Package.Doc / Package.Comment are
//	         observed for every declared name.  What go/parser attached (Doc / Comment groups) and the
//	         order in which ast.Inspect reaches the nodes is input data for the model (the event list);
//	         the expectation of the property predicate comes from the printed layout only.
package c12

import (
	"encoding/json"
	"fmt"
	"go/ast"
	"go/token"
	"os"
	"path/filepath"
	"sort"
	"strconv"
	"strings"
	"unicode/utf8"

	gtypes "github.com/octohelm/gengo/pkg/types"

	"verifharness/internal/core"
)

type prop struct{}

func init() { core.Register(prop{}) }

func (prop) ID() string        { return "C12" }
func (prop) CoqModule() string { return "Gengo.Corr.C12" }
func (prop) Parallel() int     { return 8 }

type input struct {
	Kind    string   `json:"kind"` // tags | layout
	Markers []byte   `json:"markers,omitempty"`
	Lines   [][]byte `json:"lines,omitempty"`
	Q       []string `json:"q,omitempty"` // the lines Go-quoted, for readers only
	Files   []File   `json:"files,omitempty"`
	// layout cases only: also put the FIRST Doc/Comment questions on freshly loaded copies of the package from
	// several goroutines at once, in a supervised child (conc.go)
	Conc *ConcSpec `json:"conc,omitempty"`
}

func tagsInput(markers string, lines ...string) json.RawMessage {
	in := input{Kind: "tags", Markers: []byte(markers)}
	for _, l := range lines {
		in.Lines = append(in.Lines, []byte(l))
		in.Q = append(in.Q, strconv.Quote(l))
	}
	b, _ := json.Marshal(in)
	return b
}

func layoutInput(files ...File) json.RawMessage {
	b, _ := json.Marshal(input{Kind: "layout", Files: files})
	return b
}

func concLayoutInput(conc *ConcSpec, files ...File) json.RawMessage {
	b, _ := json.Marshal(input{Kind: "layout", Files: files, Conc: conc})
	return b
}

// ---------------------------------------------------------------------------------------------
// observation
// ---------------------------------------------------------------------------------------------

type obsTags struct {
	Tags   map[string][]string `json:"tags"`
	Others []string            `json:"others"`
	Panic  string              `json:"panic,omitempty"`
}

type obsName struct {
	Name    string              `json:"name"`
	File    int                 `json:"file"`
	Line    int                 `json:"line"`
	Tags    map[string][]string `json:"tags,omitempty"`
	Doc     []string            `json:"doc"`
	Comment []string            `json:"comment"`
	ExpDoc  *string             `json:"exp_doc_text,omitempty"`
	ExpCmt  *string             `json:"exp_comment_text,omitempty"`
}

type obsLayout struct {
	Source []string  `json:"source"`
	Names  []obsName `json:"names"`
	Err    string    `json:"err,omitempty"`
	Conc   *concOut  `json:"concurrent_first_queries,omitempty"`
}

func coqLines(ls []string) string {
	items := make([]string, len(ls))
	for i, l := range ls {
		items[i] = core.Hex(l)
	}
	return core.CoqList(items)
}

func coqTagMap(m map[string][]string) string {
	keys := make([]string, 0, len(m))
	for k := range m {
		keys = append(keys, k)
	}
	sort.Strings(keys)
	items := make([]string, len(keys))
	for i, k := range keys {
		items[i] = "(" + core.Hex(k) + ", " + coqLines(m[k]) + ")"
	}
	return core.CoqList(items)
}

func (prop) Run(in json.RawMessage, scratch string) core.Result {
	var inp input
	if err := json.Unmarshal(in, &inp); err != nil {
		return core.Result{Notes: []string{"bad input: " + err.Error()}}
	}
	if inp.Kind == "tags" {
		return runTags(&inp)
	}
	return runLayout(&inp, scratch)
}

func runTags(inp *input) core.Result {
	var res core.Result
	lines := make([]string, len(inp.Lines))
	for i, l := range inp.Lines {
		lines[i] = string(l)
	}
	var obs obsTags
	panicked, val := core.Recover(func() { obs.Tags, obs.Others = gtypes.ExtractCommentTags(lines, inp.Markers...) })
	if panicked {
		obs.Panic = fmt.Sprint(val)
		res.GoViolations = append(res.GoViolations, "ExtractCommentTags panicked: "+obs.Panic)
	} else {
		// purity: the argument is not modified, a second call gives the same answer
		var t2 map[string][]string
		var o2 []string
		p2, _ := core.Recover(func() { t2, o2 = gtypes.ExtractCommentTags(lines, inp.Markers...) })
		if p2 || coqTagMap(t2) != coqTagMap(obs.Tags) || coqLines(o2) != coqLines(obs.Others) {
			res.GoViolations = append(res.GoViolations, "ExtractCommentTags is not a pure function of its input")
		}
		for i, l := range inp.Lines {
			if lines[i] != string(l) {
				res.GoViolations = append(res.GoViolations, "ExtractCommentTags modified its argument")
			}
		}
		if obs.Tags == nil {
			res.GoViolations = append(res.GoViolations, "ExtractCommentTags returned a nil tag map")
		}
	}
	res.Observed = obs
	if !panicked {
		res.Coq = fmt.Sprintf("CTags %s %s %s %s", core.Hex(string(inp.Markers)), coqLines(lines), coqTagMap(obs.Tags), coqLines(obs.Others))
	}
	nt, rep := 0, false
	for k, vs := range obs.Tags {
		_ = k
		nt += len(vs)
		if len(vs) > 1 {
			rep = true
		}
	}
	res.Nontrivial = nt > 0 && len(obs.Others) > 0
	for _, l := range lines {
		if !utf8.ValidString(l) {
			res.Class = "invalid_utf8_line"
			res.Tags = append(res.Tags, "tags:invalid_utf8")
			break
		}
	}
	res.Tags = append(res.Tags, "kind=tags", fmt.Sprintf("tags:lines=%d", min(len(lines), 8)))
	if rep {
		res.Tags = append(res.Tags, "tags:repeated_key")
	}
	if len(inp.Markers) > 0 {
		res.Tags = append(res.Tags, "tags:custom_markers")
	}
	return res
}

// ---------------------------------------------------------------------------------------------
// layouts
// ---------------------------------------------------------------------------------------------

type groupInfo struct {
	g                        *ast.CommentGroup
	file, line, col, endLine int
	lead                     bool
}

func (g *groupInfo) coq() string {
	return fmt.Sprintf("(mk_group (mk_pos %d %d %d) %d %s)", g.file, g.line, g.col, g.endLine, core.Hex(g.g.Text()))
}

func runLayout(inp *input, scratch string) core.Result {
	var res core.Result
	var obs obsLayout
	fail := func(msg string) core.Result {
		obs.Err = msg
		res.Observed = obs
		res.Notes = append(res.Notes, msg)
		return res
	}
	if err := os.MkdirAll(filepath.Join(scratch, "p"), 0o755); err != nil {
		return fail("scratch: " + err.Error())
	}
	_ = os.WriteFile(filepath.Join(scratch, "go.mod"), []byte("module example.com/c12\n\ngo 1.24.2\n"), 0o644)
	printers := make([]*printer, len(inp.Files))
	sources := make([]string, len(inp.Files))
	vf := newVfiles(len(inp.Files))
	nDirs := 0
	for i := range inp.Files {
		printers[i] = printFile(i, &inp.Files[i], vf)
		nDirs += printers[i].ndirs
		sources[i] = printers[i].sb.String()
		obs.Source = append(obs.Source, sources[i])
		if err := os.WriteFile(filepath.Join(scratch, "p", fileName(i)), []byte(sources[i]), 0o644); err != nil {
			return fail("scratch: " + err.Error())
		}
	}
	var u *gtypes.Universe
	var err error
	panicked, val := core.Recover(func() { u, err = gtypes.Load([]string{"example.com/c12/p"}, gtypes.WithDir(scratch)) })
	if panicked {
		res.GoViolations = append(res.GoViolations, fmt.Sprint("types.Load panicked: ", val))
		return fail("load panicked")
	}
	if err != nil {
		return fail("load: " + err.Error())
	}
	pkg := u.Package("example.com/c12/p")
	if pkg == nil {
		return fail("package not loaded")
	}
	// the file a position is REPORTED under (index into vf: a physical file, or a name given by a //line
	// directive); all such names live in the package directory
	fileIdx := func(pos token.Pos) int {
		pp := pkg.Position(pos)
		if filepath.Dir(pp.Filename) != filepath.Join(scratch, "p") {
			return -1
		}
		return vf.lookup(filepath.Base(pp.Filename))
	}
	vname := func(i int) string {
		if i >= 0 && i < len(vf.names) {
			return vf.names[i]
		}
		return fmt.Sprintf("file#%d", i)
	}
	if len(pkg.Files()) != len(inp.Files) {
		return fail(fmt.Sprintf("%d files parsed, %d printed (syntax error in the printed source)", len(pkg.Files()), len(inp.Files)))
	}

	// every comment group of the files (go/parser data), with the stand-alone ones marked
	groups := map[*ast.CommentGroup]*groupInfo{}
	var leads []*groupInfo
	byStart := map[[3]int]*groupInfo{}
	for _, f := range pkg.Files() {
		phys := fileIdx(f.Pos()) // the package clause lies in front of every directive
		if phys < 0 || phys >= len(sources) {
			return fail("unknown file " + pkg.Position(f.Pos()).Filename)
		}
		src := sources[phys]
		for _, cg := range f.Comments {
			ps, pe := pkg.Position(cg.Pos()), pkg.Position(cg.End())
			fi := fileIdx(cg.Pos())
			if fi < 0 || fi != fileIdx(cg.End()-1) {
				return fail("comment group under an unknown file name or across a //line directive: " + ps.String())
			}
			gi := &groupInfo{g: cg, file: fi, line: ps.Line, col: ps.Column, endLine: pe.Line}
			before := src[strings.LastIndexByte(src[:ps.Offset], '\n')+1 : ps.Offset]
			after := src[pe.Offset:]
			if k := strings.IndexByte(after, '\n'); k >= 0 {
				after = after[:k]
			}
			gi.lead = strings.TrimSpace(before) == "" && strings.TrimSpace(after) == ""
			groups[cg] = gi
			byStart[[3]int{fi, ps.Line, ps.Column}] = gi
			if gi.lead {
				leads = append(leads, gi)
			}
		}
	}
	// printed comments <-> parser groups
	nPrinted := 0
	for _, p := range printers {
		nPrinted += len(p.cmts)
		for _, c := range p.cmts {
			gi := byStart[[3]int{c.File, c.Line, c.Col}]
			if gi == nil || gi.endLine != c.EndLine || gi.lead != (c.Kind == "lead") {
				res.GoViolations = append(res.GoViolations, fmt.Sprintf("harness assumption: the comment printed at %s:%d:%d (%s) is not a comment group of its own for go/parser", vname(c.File), c.Line, c.Col, c.Kind))
			}
		}
	}
	if nPrinted != len(groups) {
		res.GoViolations = append(res.GoViolations, fmt.Sprintf("harness assumption: %d comments printed, go/parser found %d groups", nPrinted, len(groups)))
	}

	// the walk: what the callback in newPkg reacts to, in ast.Inspect order (go/ast data)
	var events []string
	var queries []qpos
	type declAt struct {
		doc, cmt *ast.CommentGroup
		node     ast.Node
	}
	declNodes := map[[3]int]declAt{}
	optGroup := func(cg *ast.CommentGroup) string {
		if cg == nil {
			return "None"
		}
		return "(Some " + groups[cg].coq() + ")"
	}
	for _, f := range pkg.Files() {
		var genDoc *ast.CommentGroup
		ast.Inspect(f, func(n ast.Node) bool {
			var doc, cmt *ast.CommentGroup
			var names []*ast.Ident
			isDecl := false
			switch x := n.(type) {
			case *ast.CommentGroup:
				events = append(events, "EGroup "+groups[x].coq())
			case *ast.GenDecl:
				genDoc = nil
				if !x.Lparen.IsValid() {
					genDoc = x.Doc
				}
			case *ast.FuncDecl:
				queries = append(queries, qpos{x.Name.Name, x.Name.Pos()})
			case *ast.ValueSpec:
				doc, cmt, names, isDecl = x.Doc, x.Comment, x.Names, true
			case *ast.ImportSpec:
				doc, cmt, isDecl = x.Doc, x.Comment, true
			case *ast.TypeSpec:
				doc, cmt, names, isDecl = x.Doc, x.Comment, []*ast.Ident{x.Name}, true
			case *ast.Field:
				doc, cmt, names, isDecl = x.Doc, x.Comment, x.Names, true
				if len(names) == 0 {
					queries = append(queries, qpos{"(embedded)", x.Pos()})
				}
			}
			if isDecl {
				ps := pkg.Position(n.Pos())
				fi := fileIdx(n.Pos())
				var nl []string
				for _, id := range names {
					nl = append(nl, fmt.Sprintf("%d%%Z", pkg.Position(id.Pos()).Line))
					queries = append(queries, qpos{id.Name, id.Pos()})
				}
				events = append(events, fmt.Sprintf("EDecl (mk_decl (mk_pos %d %d %d) %s %s %s)", fi, ps.Line, ps.Column, core.CoqList(nl), optGroup(doc), optGroup(cmt)))
				d := doc
				if _, isSpec := n.(ast.Spec); isSpec && d == nil {
					d = genDoc // an ungrouped declaration carries its doc on the GenDecl
				}
				declNodes[[3]int{fi, ps.Line, ps.Column}] = declAt{doc: d, cmt: cmt, node: n}
			}
			return true
		})
	}

	// printed declarations <-> what go/parser attached
	// keys are (reported file, reported line): what Doc / Comment are asked with
	lineTrail := map[[2]int]pcmt{} // -> printed trailing comment of a declaration starting there
	leadEnd := map[[2]int]pcmt{}   // (file, end line) -> printed stand-alone comment
	for _, p := range printers {
		for _, c := range p.cmts {
			if c.Kind == "lead" {
				if _, dup := leadEnd[[2]int{c.File, c.EndLine}]; dup {
					res.GoViolations = append(res.GoViolations, fmt.Sprintf("harness assumption: two stand-alone comments end on %s:%d (overlapping //line ranges)", vname(c.File), c.EndLine))
				}
				leadEnd[[2]int{c.File, c.EndLine}] = c
			}
		}
		for _, d := range p.decls {
			fi := d.File
			if d.Trail >= 0 {
				if old, ok := lineTrail[[2]int{fi, d.Line}]; ok && old != p.cmts[d.Trail] {
					res.GoViolations = append(res.GoViolations, fmt.Sprintf("harness assumption: two trailing comments for declarations starting on %s:%d", vname(fi), d.Line))
				}
				lineTrail[[2]int{fi, d.Line}] = p.cmts[d.Trail]
			}
			if d.What == "func" {
				continue
			}
			at, ok := declNodes[[3]int{fi, d.Line, d.Col}]
			if !ok {
				res.GoViolations = append(res.GoViolations, fmt.Sprintf("harness assumption: no declaration node at %s:%d:%d", vname(fi), d.Line, d.Col))
				continue
			}
			same := func(cg *ast.CommentGroup, id int) bool {
				if id < 0 {
					return cg == nil
				}
				c := p.cmts[id]
				return cg != nil && groups[cg].file == c.File && groups[cg].line == c.Line && groups[cg].col == c.Col
			}
			if !same(at.cmt, d.Trail) {
				res.GoViolations = append(res.GoViolations, fmt.Sprintf("harness assumption: go/parser's Comment of the declaration at %s:%d:%d is not the printed trailing comment", vname(fi), d.Line, d.Col))
			}
			if !same(at.doc, d.Doc) {
				res.GoViolations = append(res.GoViolations, fmt.Sprintf("harness assumption: go/parser's Doc of the declaration at %s:%d:%d is not the printed doc comment", vname(fi), d.Line, d.Col))
			}
		}
	}
	printedAt := map[[3]int]bool{}
	for _, p := range printers {
		for _, d := range p.decls {
			printedAt[[3]int{d.File, d.Line, d.Col}] = true
		}
	}
	for at, dn := range declNodes { // unnamed parameters / results are nodes too, but never carry comments
		if !printedAt[at] && (dn.doc != nil || dn.cmt != nil) {
			res.GoViolations = append(res.GoViolations, fmt.Sprintf("harness assumption: go/parser attached a comment to a node at %s:%d:%d that the layout did not print as a declaration", vname(at[0]), at[1], at[2]))
		}
	}
	contNames := map[[3]int]int{} // printed names that are not on the first line of their declaration -> that line
	for _, p := range printers {
		for _, n := range p.names {
			if d := p.decls[n.Decl]; d.Line != n.Line {
				contNames[[3]int{n.File, n.Line, n.Col}] = d.Line
			}
		}
	}
	qset := map[[3]int]bool{}
	for _, q := range queries {
		ps := pkg.Position(q.pos)
		qset[[3]int{fileIdx(q.pos), ps.Line, ps.Column}] = true
	}
	for _, p := range printers {
		for _, n := range p.names {
			if !qset[[3]int{n.File, n.Line, n.Col}] {
				res.GoViolations = append(res.GoViolations, fmt.Sprintf("harness assumption: printed name %s at %s:%d:%d is not a declared name in the AST", n.Name, vname(n.File), n.Line, n.Col))
			}
		}
	}

	// observe Doc / Comment for every declared name; the expectation is line-based, from the printed layout
	textOf := func(c pcmt) *string {
		gi := byStart[[3]int{c.File, c.Line, c.Col}]
		if gi == nil {
			return nil
		}
		t := gi.g.Text()
		return &t
	}
	optText := func(t *string) string {
		if t == nil {
			return "None"
		}
		return "(Some " + core.Hex(*t) + ")"
	}
	var qterms []string
	var handed []handedOut
	queryTerm := func(on obsName) string {
		return fmt.Sprintf("mk_query %d %d %s %s %s %s %s", on.File, on.Line, optText(on.ExpDoc), optText(on.ExpCmt),
			coqTagMap(on.Tags), coqLines(on.Doc), coqLines(on.Comment))
	}
	stats := map[string]bool{}
	for _, q := range queries {
		ps := pkg.Position(q.pos)
		fi := fileIdx(q.pos)
		on := obsName{Name: q.name, File: fi, Line: ps.Line}
		p1, v1 := core.Recover(func() { on.Tags, on.Doc = pkg.Doc(q.pos) })
		p2, v2 := core.Recover(func() { on.Comment = pkg.Comment(q.pos) })
		if p1 || p2 {
			res.GoViolations = append(res.GoViolations, fmt.Sprint("Doc/Comment panicked: ", v1, v2))
			continue
		}
		// the expectation is that of the line of the declaration the name belongs to (for a name on a
		// continuation line that is not the line of the name: known finding name_on_continuation_line)
		declLine := ps.Line
		if dl, ok := contNames[[3]int{fi, ps.Line, ps.Column}]; ok {
			declLine = dl
			stats["name_on_continuation_line"] = true
		}
		behindDir := fi >= len(inp.Files) || ps.Line != pkg.FileSet().PositionFor(q.pos, false).Line
		if c, ok := leadEnd[[2]int{fi, declLine - 1}]; ok {
			on.ExpDoc = textOf(c)
			stats["doc"] = true
			if behindDir {
				stats["doc_behind_line_directive"] = true
			}
		}
		if c, ok := lineTrail[[2]int{fi, declLine}]; ok {
			on.ExpCmt = textOf(c)
			stats["trailing"] = true
			if behindDir {
				stats["trailing_behind_line_directive"] = true
			}
		}
		if _, ok := lineTrail[[2]int{fi, ps.Line - 1}]; ok && on.ExpDoc == nil {
			stats["prev_line_trailing_no_doc"] = true
		}
		if len(on.Tags) > 0 {
			stats["doc_tags"] = true
		}
		if (on.ExpDoc != nil && strings.TrimSpace(*on.ExpDoc) == "") || (on.ExpCmt != nil && strings.TrimSpace(*on.ExpCmt) == "") {
			stats["empty_comment_text"] = true
		}
		// what the calls handed out stays with the harness (it is edited further down, as a caller may do);
		// the observation is a copy of its own
		handed = append(handed, handedOut{idx: len(obs.Names), q: q, tags: on.Tags, doc: on.Doc, cmt: on.Comment})
		on.Tags, on.Doc, on.Comment = cloneTags(on.Tags), cloneLines(on.Doc), cloneLines(on.Comment)
		obs.Names = append(obs.Names, on)
		qterms = append(qterms, queryTerm(on))
	}
	// "Doc returns exactly the lines ..." is a statement about EVERY call: ask again after a caller has edited
	// what it was handed (round 1: the first line loses the declared name, in place - what gengo's own Context.Doc
	// does with the lines of Package.Doc; round 2: every line and every tag value overwritten, values appended,
	// keys added and removed).  An answer that differs from the first one is one more observed query of the
	// case and is judged by the same predicate as the first.
	for round := 1; round <= 2; round++ {
		for i := range handed {
			h := &handed[i]
			scribble(round, h.q.name, h.tags, h.doc, h.cmt)
		}
		for i := range handed {
			h := &handed[i]
			first := obs.Names[h.idx]
			again := first
			again.Name = fmt.Sprintf("%s (call %d)", first.Name, round+1)
			again.Tags, again.Doc, again.Comment = nil, nil, nil
			var t map[string][]string
			var d, c []string
			p1, v1 := core.Recover(func() { t, d = pkg.Doc(h.q.pos) })
			p2, v2 := core.Recover(func() { c = pkg.Comment(h.q.pos) })
			if p1 || p2 {
				res.GoViolations = append(res.GoViolations, fmt.Sprint("Doc/Comment panicked on a repeated call: ", v1, v2))
				continue
			}
			again.Tags, again.Doc, again.Comment = cloneTags(t), cloneLines(d), cloneLines(c)
			h.tags, h.doc, h.cmt = t, d, c
			if queryTerm(again) != queryTerm(first) {
				stats["repeated_call_differs"] = true
				obs.Names = append(obs.Names, again)
				qterms = append(qterms, queryTerm(again))
			}
		}
	}
	stats["repeated_calls"] = len(handed) > 0
	// the first questions on a freshly loaded package, from several goroutines at once (conc.go): an answer that
	// differs from the one a single caller gets is one more observed query, judged by the same predicate
	if inp.Conc != nil && len(queries) > 0 {
		co, died, note := concPass(inp.Conc, sources, scratch)
		switch {
		case note != "":
			res.Notes = append(res.Notes, note)
		case died != "":
			stats["concurrent_first_queries"] = true
			res.GoViolations = append(res.GoViolations, fmt.Sprintf("Doc/Comment: the process died while %d goroutines put the first Doc/Comment questions on a freshly loaded package (no call returned the lines of the comment group): %s", inp.Conc.G, died))
			obs.Conc = &concOut{Err: died}
		case co.Err != "":
			res.Notes = append(res.Notes, "concurrency pass: "+co.Err)
			obs.Conc = &co
		default:
			stats["concurrent_first_queries"] = true
			obs.Conc = &co
			for _, b := range co.Bad {
				res.GoViolations = append(res.GoViolations, fmt.Sprintf("%s at %s:%d asked among the first questions on a freshly loaded package by %d goroutines at once: goroutine %d (copy %d) got %s; a single caller gets %s (%d of %d concurrent answers differ)",
					b.Name, b.File, b.Line, co.Goroutines, b.Goroutine, b.Copy, b.Got.show(), b.Want.show(), co.Wrong, co.Calls))
				if b.Got.Panic != "" {
					continue
				}
				fi := vf.lookup(b.File)
				for _, first := range obs.Names {
					if first.Name == b.Name && first.File == fi && first.Line == b.Line {
						again := first
						again.Name = fmt.Sprintf("%s (first question, goroutine %d of %d, copy %d)", b.Name, b.Goroutine, co.Goroutines, b.Copy)
						again.Tags, again.Doc, again.Comment = b.Got.Tags, b.Got.Doc, b.Got.Comment
						if queryTerm(again) != queryTerm(first) {
							obs.Names = append(obs.Names, again)
							qterms = append(qterms, queryTerm(again))
						}
						break
					}
				}
			}
		}
	}
	res.Observed = obs
	var leadTerms []string
	for _, g := range leads {
		leadTerms = append(leadTerms, g.coq())
	}
	res.Coq = fmt.Sprintf("CLayout %s %s %s %s", coqItems(events), coqItems(leadTerms), core.CoqBool(len(contNames) > 0), coqItems(qterms))
	res.Nontrivial = stats["doc"] && stats["trailing"]
	switch { // input classes (labels for reports; only the first is a known finding once the fixes are in)
	case len(contNames) > 0:
		res.Class = "name_on_continuation_line"
	case stats["empty_comment_text"]:
		res.Class = "empty_comment_text"
	case stats["prev_line_trailing_no_doc"]:
		res.Class = "trailing_comment_on_previous_line"
	}
	if nDirs > 0 {
		res.Tags = append(res.Tags, fmt.Sprintf("layout:line_directives=%d", min(nDirs, 3)))
	}
	res.Tags = append(res.Tags, "kind=layout", fmt.Sprintf("layout:files=%d", len(inp.Files)), fmt.Sprintf("layout:names=%d", 10*(len(queries)/10)))
	for k := range stats {
		res.Tags = append(res.Tags, "layout:"+k)
	}
	sort.Strings(res.Tags)
	return res
}

type qpos struct {
	name string
	pos  token.Pos
}

// handedOut: the very values one Doc / Comment call returned (not copies)
type handedOut struct {
	idx  int // index of the first observation in obs.Names
	q    qpos
	tags map[string][]string
	doc  []string
	cmt  []string
}

func cloneLines(ls []string) []string {
	if ls == nil {
		return nil
	}
	return append([]string{}, ls...)
}

func cloneTags(m map[string][]string) map[string][]string {
	if m == nil {
		return nil
	}
	out := make(map[string][]string, len(m))
	for k, vs := range m {
		out[k] = cloneLines(vs)
	}
	return out
}

// scribble edits, in place, what a Doc / Comment call handed out - a caller owns its results.
func scribble(round int, name string, tags map[string][]string, doc, cmt []string) {
	if round == 1 {
		// gengo's Context.Doc: strip the declared name from the first line, in place
		if len(doc) > 0 {
			if rest, ok := strings.CutPrefix(doc[0], name); ok && (rest == "" || rest[0] == ' ') {
				doc[0] = strings.TrimSpace(rest)
			} else {
				doc[0] = strings.ToUpper(doc[0])
			}
		}
		if len(cmt) > 0 {
			cmt[len(cmt)-1] = strings.TrimSpace(cmt[len(cmt)-1] + " ")
			cmt[0] = strings.TrimPrefix(cmt[0], name)
		}
		for k, vs := range tags { // a caller merging tags: append to the value lists
			tags[k] = append(vs, "merged")
		}
		return
	}
	for _, ls := range [][]string{doc, cmt} {
		full := ls[:cap(ls)]
		for i := range full {
			full[i] = "\x00scribbled over by the caller"
		}
		sort.Strings(ls)
	}
	for k, vs := range tags {
		full := vs[:cap(vs)]
		for i := range full {
			full[i] = "scribbled"
		}
		delete(tags, k)
	}
	if tags != nil {
		tags["added-by-caller"] = []string{"1"}
	}
}

func coqItems(items []string) string {
	for i, it := range items {
		if !strings.HasPrefix(it, "(") {
			items[i] = "(" + it + ")"
		}
	}
	return "[" + strings.Join(items, ";\n  ") + "]"
}
