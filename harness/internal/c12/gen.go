package c12

import (
	"encoding/json"
	"fmt"
	"strings"

	"verifharness/internal/core"
)

// ---------------------------------------------------------------------------------------------
// tag line lists
// ---------------------------------------------------------------------------------------------

var tagKeys = []string{"gengo:deepcopy", "gengo:enum", "k8s:openapi-gen", "foo", "x", "deprecated", "a.b/c", "ключ", "k-1", ""}
var tagVals = []string{"", "true", "false", "value1", "a=b", "with space", "\"quoted\"", "x,y=z", " lead", "trail ", "значение", "="}
var plainLines = []string{"Human comment that is ignored.", "\tCode", "", " ", "T is a type", "see +foo below", "a = b", "x+y", "go:generate in the middle",
	"-dash", "#hash", "\t+tab before marker", "ünïcödé ✓", "email@example.com", "=", "   indented text   "}

func genTagLine(r *core.RNG, markers string) string {
	if markers == "" {
		markers = "+@"
	}
	var b strings.Builder
	switch k := r.Intn(20); {
	case k < 11: // a tag line
		b.WriteString(strings.Repeat(" ", r.Intn(3)))
		b.WriteByte(markers[r.Intn(len(markers))])
		b.WriteString(core.Pick(r, tagKeys))
		switch r.Intn(6) {
		case 0: // no value
		case 1:
			b.WriteString(" " + core.Pick(r, tagVals))
		case 2:
			b.WriteString("= " + core.Pick(r, tagVals))
		case 3:
			b.WriteString(" =" + core.Pick(r, tagVals))
		default:
			b.WriteString("=" + core.Pick(r, tagVals))
		}
		b.WriteString(strings.Repeat(" ", r.Intn(3)))
	case k < 17:
		b.WriteString(core.Pick(r, plainLines))
	case k < 18: // marker only / marker and separators
		b.WriteString(core.Pick(r, []string{"+", "@", "+=", "+ ", "@=x", "+ =", "++", "+@", "@+k=v", "  +  ", "+=="}))
	default: // random over a small alphabet
		n := r.Intn(7)
		for i := 0; i < n; i++ {
			b.WriteString(core.Pick(r, []string{"+", "@", "=", " ", "a", "b", "\t", "é", "#"}))
		}
	}
	return b.String()
}

func genTags(r *core.RNG) json.RawMessage {
	markers := ""
	if r.Chance(30) {
		markers = core.Pick(r, []string{"+", "@", "#", "+@#", "-", "!@", "=", " ", "a", "++"})
	}
	n := r.Intn(9)
	if r.Chance(10) {
		n = 9 + r.Intn(12)
	}
	lines := make([]string, n)
	for i := range lines {
		if i > 0 && r.Chance(25) { // repeat the key of an earlier tag line
			prev := strings.TrimLeft(lines[r.Intn(i)], " ")
			if k := strings.IndexAny(prev, "= "); k > 0 {
				lines[i] = prev[:k] + core.Pick(r, []string{"=", " "}) + core.Pick(r, tagVals)
				continue
			}
		}
		lines[i] = genTagLine(r, markers)
	}
	return tagsInput(markers, lines...)
}

// malformed stream for the tag extractor: not UTF-8, NUL, very long, CR/LF inside a "line"
func genTagsMalformed(r *core.RNG) json.RawMessage {
	n := 1 + r.Intn(4)
	lines := make([]string, n)
	for i := range lines {
		switch r.Intn(5) {
		case 0:
			lines[i] = "+k=" + string([]byte{0xff, 0xfe}) + "v"
		case 1:
			lines[i] = string([]byte{0xc3}) + "+x"
		case 2:
			lines[i] = "+a\x00b=c\x00d"
		case 3:
			lines[i] = "+long=" + strings.Repeat("xy=", 40)
		default:
			lines[i] = "+cr\r=lf\nend"
		}
	}
	return tagsInput("", lines...)
}

// ---------------------------------------------------------------------------------------------
// layouts
// ---------------------------------------------------------------------------------------------

type lgen struct {
	r     *core.RNG
	n     int
	odd   bool // the odd stream: inline block comments, several declarations on one line, multi-line trailing blocks
	split bool // names of one declaration on several lines (known finding name_on_continuation_line)
	dirs  bool // the //line stream: declarations behind `//line name:N:1` directives
	ndir  int
}

// lineDir: a directive in front of a declaration: a new file name (each directive its own) or the file's own
// name, and a forward jump of the line numbers (see LineDir).
func (g *lgen) lineDir(pct int) *LineDir {
	if !g.dirs || !g.r.Chance(pct) {
		return nil
	}
	g.ndir++
	skip := core.Pick(g.r, []int{0, 0, 1, 7, 100, 1000})
	if g.r.Chance(25) {
		return &LineDir{Skip: skip}
	}
	ext := core.Pick(g.r, []string{".y", ".go", ".go.tmpl", ".l", ""})
	return &LineDir{Name: fmt.Sprintf("gen%d%s", g.ndir, ext), Skip: skip}
}

func (g *lgen) name(prefix string) string {
	g.n++
	return fmt.Sprintf("%s%d", prefix, g.n)
}

var docWords = []string{" is a thing", " see go:generate below", " does something", " holds the state", " plain words", " Deprecated: use the other one", " TODO(x): fix"}
var tagLines = []string{" +gengo:deepcopy", " +gengo:enum=false", " @deprecated use X", " +k8s:openapi-gen=true", " +foo bar baz", " +x=a=b", " +", " @",
	" + spaced", "+nospace=1", "  +indented=2", " +gengo:deepcopy=a", " +gengo:deepcopy=b", " @foo", " +ключ=значение"}
var oddLines = []string{"", "go:generate echo x", " go:generate spaced", "nolint:foo", "\tTabbed +x", " trailing spaces   ", " ünïcödé ✓ +not=tag", "  two spaces",
	" a  b", " ends with tab\t", "no space", "  nbsp first", " x　"}

// colonLines: comment lines whose first word looks like a directive ([a-z0-9]+:[a-z0-9]) but which are ordinary text —
// go/ast drops such a line only when it directly follows the slashes ("//nolint:x"); after a blank it is
// documentation ("// 10:30 is the default start") and belongs to Doc/Comment like any other line; only the go: prefix is
// filtered by gengo.  With near misses on both sides of the pattern.
var colonLines = []string{" 10:30 is the default start time", " 1:1 means equal parts", " tz:utc unless set", " urn:job:owner of the job", " key:value",
	" nolint:unused spaced", " lint:ignore U1000 spaced", " 0:00 every day", " a:b", " x:1", " 3:4 ratio", " todo:later",
	" Note:x upper", " x: y", " :x", " x:", " a-b:c", " é:x", " http://example.com/a", " golang:x", " 1:A", "\tcol:1 tabbed", "  k:v two spaces"}

func (g *lgen) line(name string) string {
	r := g.r
	switch k := r.Intn(23); {
	case k >= 20:
		return core.Pick(r, colonLines)
	case k < 9:
		if r.Chance(50) {
			return " " + name + core.Pick(r, docWords)
		}
		return core.Pick(r, docWords)
	case k < 16:
		return core.Pick(r, tagLines)
	default:
		return core.Pick(r, oddLines)
	}
}

func (g *lgen) cmt(name string, maxLines int, allowBlock bool) *Cmt {
	r := g.r
	n := 1
	if maxLines > 1 {
		n = 1 + r.Intn(maxLines)
	}
	c := &Cmt{}
	for i := 0; i < n; i++ {
		c.L = append(c.L, g.line(name))
	}
	if allowBlock && r.Chance(25) {
		c.B = true
		for i, l := range c.L {
			c.L[i] = strings.ReplaceAll(l, "*/", "* /")
		}
	}
	return c
}

// the comments around one declaration
func (g *lgen) around(name string, doc **Cmt, trail **Cmt, det **Cmt, blank *int, inline **Cmt) {
	r := g.r
	if r.Chance(45) {
		*doc = g.cmt(name, 3, true)
	}
	if r.Chance(45) {
		*trail = g.cmt(name, 1, true)
		if (*trail).B && !g.odd {
			(*trail).L = (*trail).L[:1]
		} else if (*trail).B && r.Chance(50) {
			(*trail).L = append((*trail).L, " second line of a trailing block")
		}
	}
	if r.Chance(12) {
		*det = g.cmt(name, 2, true)
	}
	if r.Chance(25) {
		*blank = 1 + r.Intn(2)
	}
	if g.odd && *doc == nil && r.Chance(20) {
		*inline = &Cmt{L: []string{" inline "}, B: true}
	}
}

var basicTypes = []string{"int", "string", "[]byte", "*int", "map[string]int", "bool", "float64", "func()", "chan int", "[2]int"}

func (g *lgen) fields(depth int, iface bool) []Field {
	r := g.r
	n := 1 + r.Intn(4)
	var fs []Field
	embedded := false
	for i := 0; i < n; i++ {
		var f Field
		switch {
		case iface:
			if !embedded && r.Chance(15) {
				f.Type, embedded = "error", true
			} else {
				f.Names = []string{g.name("M")}
				f.Tag = core.Pick(r, []string{"()", "(int) string", "() error", "(string, ...int)"})
			}
		case !embedded && r.Chance(8):
			f.Type, embedded = "error", true
		case depth < 2 && r.Chance(8):
			f.Names = []string{g.name("S")}
			f.Sub = g.fields(depth+1, false)
		default:
			k := 1
			if r.Chance(25) {
				k = 2 + r.Intn(2)
			}
			for j := 0; j < k; j++ {
				f.Names = append(f.Names, g.name("F"))
			}
			f.Type = core.Pick(r, basicTypes)
			if r.Chance(15) {
				f.Tag = `json:"x,omitempty"`
			}
			f.Split = g.split && k > 1 && r.Chance(50)
		}
		nm := f.Type
		if len(f.Names) > 0 {
			nm = f.Names[0]
		}
		g.around(nm, &f.Doc, &f.Trail, &f.Det, &f.Blank, &f.Inline)
		f.Dir = g.lineDir(8)
		if g.odd && i > 0 && len(f.Sub) == 0 && len(fs[i-1].Sub) == 0 && r.Chance(15) { // A int; B int
			f.Semi, f.Doc, f.Det, f.Blank, f.Dir = true, nil, nil, 0, nil
			fs[i-1].Trail = nil
		}
		fs = append(fs, f)
	}
	return fs
}

func (g *lgen) spec(kind string, grouped bool) Spec {
	r := g.r
	var s Spec
	switch kind {
	case "import":
		s.Names, s.Path = []string{"_"}, "unsafe"
	case "type":
		s.Names = []string{g.name("T")}
		switch k := r.Intn(10); {
		case k < 5:
			s.TK = "struct"
			s.Fields = g.fields(0, false)
			if r.Chance(15) {
				s.OneLine = true
				for i := range s.Fields {
					f := &s.Fields[i]
					*f = Field{Names: f.Names, Type: f.Type, Tag: ""} // (a directive cannot stand inside a line)
					if len(f.Names) == 0 && f.Type == "" || f.Type == "" {
						f.Names, f.Type = []string{g.name("F")}, "int"
					}
				}
			} else if r.Chance(20) {
				s.Brace = g.cmt("brace", 1, false)
			}
		case k < 7:
			s.TK = "iface"
			s.Fields = g.fields(0, true)
			if r.Chance(15) {
				s.Brace = g.cmt("brace", 1, false)
			}
		case k < 8:
			s.TK, s.Type = "alias", core.Pick(r, basicTypes)
		default:
			s.TK, s.Type = "basic", core.Pick(r, basicTypes)
		}
	default:
		k := 1
		if r.Chance(25) {
			k = 2 + r.Intn(2)
		}
		var vals []string
		for j := 0; j < k; j++ {
			s.Names = append(s.Names, g.name(strings.ToUpper(kind[:1])))
			vals = append(vals, fmt.Sprint(r.Intn(100)))
		}
		if kind == "const" || r.Chance(60) {
			s.Value = strings.Join(vals, ", ")
			if r.Chance(30) {
				s.Type = "int"
			}
		} else {
			s.Type = "int"
		}
		s.Split = g.split && k > 1 && r.Chance(50)
	}
	g.around(s.Names[0], &s.Doc, &s.Trail, &s.Det, &s.Blank, &s.Inline)
	if grouped {
		s.Dir = g.lineDir(10)
	}
	if !grouped {
		s.Doc, s.Det, s.Blank = nil, nil, 0 // an ungrouped declaration has its comments on the Decl
	}
	return s
}

func (g *lgen) decl(kind string, local bool) Decl {
	r := g.r
	d := Decl{Kind: kind}
	var trail, inline *Cmt
	g.around(kind, &d.Doc, &trail, &d.Det, &d.Blank, &inline)
	d.Dir = g.lineDir(map[bool]int{true: 10, false: 30}[local])
	if kind == "func" {
		d.Name = g.name("Fn")
		np := r.Intn(3)
		for i := 0; i < np; i++ {
			d.Params = append(d.Params, Field{Names: []string{g.name("p")}, Type: core.Pick(r, basicTypes[:4])})
		}
		nb := r.Intn(4)
		for i := 0; i < nb; i++ {
			d.Body = append(d.Body, g.decl(core.Pick(r, []string{"var", "const", "type", "var"}), true))
		}
		if r.Chance(25) {
			d.Open = g.cmt("open", 1, false)
		}
		if r.Chance(15) {
			d.Close = g.cmt("close", 1, false)
		}
		return d
	}
	d.Grouped = r.Chance(45)
	if d.Grouped {
		n := 1 + r.Intn(3)
		for i := 0; i < n; i++ {
			s := g.spec(kind, true)
			if g.odd && i > 0 && !(s.TK == "struct" && !s.OneLine) && s.TK != "iface" && r.Chance(12) {
				prev := &d.Specs[i-1]
				if !(prev.TK == "struct" && !prev.OneLine) && prev.TK != "iface" && !(prev.Trail != nil && prev.Trail.B && len(prev.Trail.L) > 1) {
					s.Semi, s.Doc, s.Det, s.Blank, s.Dir = true, nil, nil, 0, nil
					prev.Trail = nil
				}
			}
			d.Specs = append(d.Specs, s)
		}
		if r.Chance(20) {
			d.Open = g.cmt("open", 1, false)
		}
		if r.Chance(20) {
			d.Close = g.cmt("close", 1, false)
		}
	} else {
		s := g.spec(kind, false)
		s.Trail = trail
		d.Specs = []Spec{s}
	}
	return d
}

func (g *lgen) file(first bool) File {
	r := g.r
	var f File
	if r.Chance(40) {
		f.Header = g.cmt("Package p", 2, true)
	}
	if r.Chance(25) {
		d := g.decl("import", false)
		f.Decls = append(f.Decls, d)
	}
	n := 2 + r.Intn(4)
	for i := 0; i < n; i++ {
		kind := core.Pick(r, []string{"type", "type", "type", "const", "var", "func"})
		d := g.decl(kind, false)
		if i == 0 && d.Blank == 0 && len(f.Decls) == 0 {
			d.Blank = 1
		}
		f.Decls = append(f.Decls, d)
	}
	if g.dirs && first && g.ndir == 0 { // at least one directive, with declarations behind it
		g.ndir++
		f.Decls[len(f.Decls)/2].Dir = &LineDir{Name: "gen1.y", Skip: r.Intn(900)}
	}
	return f
}

func genLayout(r *core.RNG, odd, split, dirs bool) json.RawMessage {
	g := &lgen{r: r, odd: odd, split: split, dirs: dirs}
	files := []File{g.file(true)}
	if r.Chance(30) {
		files = append(files, g.file(false))
	}
	return layoutInput(files...)
}

// genConcLayout: a layout of 2-4 files whose first Doc/Comment questions are ALSO put by several goroutines at once
// on freshly loaded copies of the package (conc.go).  More files and declarations than the plain stream: the longer
// whatever Doc/Comment need takes to build, the wider the window a lazily built index leaves open.
func genConcLayout(r *core.RNG, dirs bool, copies int) json.RawMessage {
	g := &lgen{r: r, dirs: dirs}
	files := []File{g.file(true), g.file(false)}
	for len(files) < 4 && r.Chance(60) {
		files = append(files, g.file(false))
	}
	return concLayoutInput(&ConcSpec{G: 8 + 4*r.Intn(3), Copies: copies}, files...)
}

// ---------------------------------------------------------------------------------------------
// fixed corner cases
// ---------------------------------------------------------------------------------------------

func lc(lines ...string) *Cmt { return &Cmt{L: lines} }
func bc(lines ...string) *Cmt { return &Cmt{L: lines, B: true} }

func fixedLayouts() []json.RawMessage {
	structOf := func(fs ...Field) File {
		return File{Decls: []Decl{{Kind: "type", Blank: 1, Specs: []Spec{{Names: []string{"T"}, TK: "struct", Fields: fs}}}}}
	}
	return []json.RawMessage{
		// the layout of DESIGN.md section 4 #19: a trailing comment, then an undocumented field
		layoutInput(structOf(Field{Names: []string{"A"}, Type: "int", Trail: lc(" trailing A")}, Field{Names: []string{"B"}, Type: "int"})),
		// the same with a doc on B
		layoutInput(structOf(Field{Names: []string{"A"}, Type: "int", Trail: lc(" trailing A")}, Field{Names: []string{"B"}, Type: "int", Doc: lc(" doc B", " +gengo:x=1")})),
		// constants, ungrouped, consecutive lines
		layoutInput(File{Decls: []Decl{
			{Kind: "const", Blank: 1, Specs: []Spec{{Names: []string{"K"}, Value: "1", Trail: lc(" trailing K")}}},
			{Kind: "const", Specs: []Spec{{Names: []string{"L"}, Value: "2"}}},
			{Kind: "var", Doc: lc(" doc V", " @tag v"), Specs: []Spec{{Names: []string{"V", "W"}, Value: "1, 2", Trail: bc(" block trailing ")}}},
		}}),
		// grouped types: trailing comment behind the closing brace, then an undocumented type
		layoutInput(File{Header: lc(" Package p."), Decls: []Decl{{Kind: "type", Blank: 1, Grouped: true, Doc: lc(" group doc"), Specs: []Spec{
			{Names: []string{"U"}, TK: "struct", Brace: lc(" brace"), Fields: []Field{{Names: []string{"X"}, Type: "int"}}, Trail: lc(" trailing U")},
			{Names: []string{"V"}, TK: "basic", Type: "int"},
			{Names: []string{"W"}, TK: "basic", Type: "int", Det: lc(" detached"), Doc: bc(" doc W", "+gengo:deepcopy", " "), Trail: lc(" trailing W")},
		}}}}),
		// comment groups whose Text() is empty: a directive only, an empty comment
		layoutInput(File{Decls: []Decl{
			{Kind: "type", Blank: 1, Doc: lc("go:generate echo x"), Specs: []Spec{{Names: []string{"G"}, TK: "basic", Type: "int"}}},
			{Kind: "type", Blank: 1, Doc: lc(""), Specs: []Spec{{Names: []string{"E"}, TK: "basic", Type: "int", Trail: lc("")}}},
			{Kind: "type", Blank: 1, Doc: lc(" go:generate spaced", " D doc"), Specs: []Spec{{Names: []string{"D"}, TK: "basic", Type: "int"}}},
		}}),
		// lines whose first word looks like a directive but which follow "// ": ordinary documentation (only go: is filtered)
		layoutInput(File{Decls: []Decl{
			{Kind: "type", Blank: 1, Doc: lc(" Schedule describes when the job runs.", " 10:30 is the default start time,", " tz:utc unless set.", " +gengo:x=1"), Specs: []Spec{{Names: []string{"Schedule"}, TK: "struct", Fields: []Field{
				{Names: []string{"Cron"}, Type: "string", Doc: lc(" Cron expression,", " 0:00 every day."), Trail: lc(" key:value")},
				{Names: []string{"Owner"}, Type: "string", Doc: lc(" urn:job:owner of the job")}}}}},
			{Kind: "const", Blank: 1, Doc: bc(" 1:1 means equal parts", " nolint:unused spaced"), Specs: []Spec{{Names: []string{"Ratio"}, Value: "1", Trail: bc(" a:b ")}}},
		}}),
		// two files with the same line numbers
		layoutInput(
			File{Decls: []Decl{{Kind: "type", Blank: 1, Doc: lc(" doc A0"), Specs: []Spec{{Names: []string{"A0"}, TK: "basic", Type: "int", Trail: lc(" trailing A0")}}}}},
			File{Decls: []Decl{{Kind: "type", Blank: 2, Specs: []Spec{{Names: []string{"B0"}, TK: "basic", Type: "int"}}}}},
		),
		// names on a continuation line (known finding name_on_continuation_line)
		layoutInput(structOf(Field{Names: []string{"F", "G"}, Type: "int", Split: true, Doc: lc(" doc FG"), Trail: lc(" trailing FG")}, Field{Names: []string{"H"}, Type: "int"})),
		// declarations behind a //line directive that renames the file (goyacc / cgo / template output; seeded
		// change C12-d): docs, tag lines and trailing comments of types, fields, grouped constants and variables
		layoutInput(File{Decls: []Decl{
			{Kind: "type", Blank: 1, Doc: lc(" Plain is documented"), Specs: []Spec{{Names: []string{"Plain"}, TK: "struct", Fields: []Field{{Names: []string{"ID"}, Type: "int", Doc: lc(" ID doc"), Trail: lc(" trailing ID")}}}}},
			{Kind: "type", Dir: &LineDir{Name: "node.y", Skip: 120}, Doc: lc(" Node is documented", " +gengo:node=yes"), Specs: []Spec{{Names: []string{"Node"}, TK: "struct", Trail: lc(" trailing Node"), Fields: []Field{
				{Names: []string{"Kind"}, Type: "int", Doc: lc(" Kind of node"), Trail: lc(" trailing kind")},
				{Names: []string{"Next"}, Type: "*int"},
			}}}},
			{Kind: "const", Grouped: true, Blank: 1, Specs: []Spec{
				{Names: []string{"KindLeaf"}, Value: "1", Doc: lc(" KindLeaf doc", " @leaf"), Trail: lc(" trailing leaf")},
				{Names: []string{"KindTree"}, Value: "2"},
			}},
			{Kind: "var", Doc: bc(" V doc "), Specs: []Spec{{Names: []string{"V", "W"}, Value: "1, 2", Trail: bc(" block trailing ")}}},
		}}),
		// the directive keeps the file name and only jumps in the line numbers; a second directive further down;
		// directives between struct fields, between grouped specs and inside a function body; a second file
		layoutInput(
			File{Decls: []Decl{
				{Kind: "type", Blank: 1, Dir: &LineDir{Skip: 1000}, Doc: lc(" A doc"), Specs: []Spec{{Names: []string{"A"}, TK: "struct", Fields: []Field{
					{Names: []string{"X"}, Type: "int", Trail: lc(" trailing X")},
					{Names: []string{"Y"}, Type: "int", Dir: &LineDir{Name: "fields.go.tmpl"}, Doc: lc(" Y doc", " +y"), Trail: lc(" trailing Y")},
					{Names: []string{"Z"}, Type: "int"},
				}, Trail: lc(" trailing A")}}},
				{Kind: "const", Grouped: true, Doc: lc(" group"), Specs: []Spec{
					{Names: []string{"K1"}, Value: "1", Trail: lc(" trailing K1")},
					{Names: []string{"K2"}, Value: "2", Dir: &LineDir{Name: "consts.y", Skip: 300}, Doc: lc(" K2 doc")},
					{Names: []string{"K3"}, Value: "3", Trail: lc(" trailing K3")},
				}},
				{Kind: "func", Blank: 1, Doc: lc(" Fn does"), Name: "Fn", Body: []Decl{
					{Kind: "var", Specs: []Spec{{Names: []string{"x"}, Type: "int", Trail: lc(" trailing x")}}},
					{Kind: "var", Dir: &LineDir{Name: "body.l", Skip: 1}, Doc: lc(" y doc"), Specs: []Spec{{Names: []string{"y"}, Type: "int", Trail: lc(" trailing y")}}},
				}},
				{Kind: "type", Doc: lc(" After doc"), Specs: []Spec{{Names: []string{"After"}, TK: "basic", Type: "int", Trail: lc(" trailing After")}}},
			}},
			File{Decls: []Decl{
				{Kind: "type", Blank: 1, Doc: lc(" B doc"), Specs: []Spec{{Names: []string{"B"}, TK: "basic", Type: "int", Trail: lc(" trailing B")}}},
				{Kind: "type", Dir: &LineDir{Name: "other.y", Skip: 3}, Doc: lc(" C doc"), Specs: []Spec{{Names: []string{"C"}, TK: "basic", Type: "int", Trail: lc(" trailing C")}}},
				{Kind: "type", Dir: &LineDir{}, Doc: lc(" D doc"), Specs: []Spec{{Names: []string{"D"}, TK: "basic", Type: "int", Trail: lc(" trailing D")}}},
			}},
		),
		// import with a trailing comment, function with parameters and local declarations
		layoutInput(File{Decls: []Decl{
			{Kind: "import", Blank: 1, Specs: []Spec{{Names: []string{"_"}, Path: "unsafe", Trail: lc(" for linkname")}}},
			{Kind: "type", Specs: []Spec{{Names: []string{"T"}, TK: "struct", OneLine: true, Fields: []Field{{Names: []string{"X", "Y"}, Type: "int"}}, Trail: lc(" one line")}}},
			{Kind: "func", Blank: 1, Doc: lc(" Fn does"), Name: "Fn", Params: []Field{{Names: []string{"a"}, Type: "int"}}, Open: lc(" open"),
				Body: []Decl{{Kind: "var", Specs: []Spec{{Names: []string{"x"}, Type: "int", Trail: lc(" trailing x")}}}, {Kind: "var", Specs: []Spec{{Names: []string{"y"}, Type: "int"}}}}},
		}}),
	}
}

func fixedTags() []json.RawMessage {
	return []json.RawMessage{
		tagsInput("+@", "Human comment that is ignored.", "\tCode", "+gengo:test=value1", "@bar", "+baz=qux,zrb=true", "+gengo:test value2"),
		tagsInput(""),
		tagsInput("", ""),
		tagsInput("", "+"),
		tagsInput("", "  +k = v  ", "+k=", "+k", "+=v", "+ v", "@k v=w"),
		tagsInput("#", "+not", "#yes=1", " # spaced"),
		tagsInput("", "no tags", "at all"),
		tagsInput("", "+a=1", "+b=2", "+a=3", "x", "+b=4", "+a=1"),
		tagsInput(" ", " x", "  "),
		tagsInput("=", "=a=b"),
	}
}

// ---------------------------------------------------------------------------------------------

func (prop) Generate(r *core.RNG, tier string) []json.RawMessage {
	generated = true
	nTags, nLayouts := 1200, 130
	if tier == "thorough" {
		nTags, nLayouts = 15000, 2500
	}
	var out []json.RawMessage
	out = append(out, fixedTags()...)
	out = append(out, fixedLayouts()...)
	// layouts are spread evenly among the tag cases so that every Coq shard gets its share
	per := nTags / nLayouts
	li := 0
	for i := 0; i < nTags; i++ {
		if i%per == 0 && li < nLayouts {
			// every 3rd layout has //line directives (also combined with the odd stream)
			out = append(out, genLayout(r.Fork(), li%8 == 7, li%32 == 15, li%3 == 1))
			// the concurrency pass: first questions on fresh packages from 8-16 goroutines at once (26 cases per
			// quick run, 250 per thorough run: a child process and a load of 25 packages each)
			if (tier != "thorough" && li%5 == 2) || li%10 == 2 {
				out = append(out, genConcLayout(r.Fork(), li%3 == 1, 24))
			}
			li++
		}
		if i%10 == 9 {
			out = append(out, genTagsMalformed(r))
		} else {
			out = append(out, genTags(r))
		}
	}
	if tier == "thorough" {
		out = append(out, exhaustiveTags()...)
		out = append(out, exhaustiveLayouts()...)
	}
	return out
}

// every list of one line of length <= 5, and of two lines of length <= 2, over {'+', 'a', '=', ' '}
func exhaustiveTags() []json.RawMessage {
	syms := []string{"+", "a", "=", " "}
	var all []string
	var rec func(prefix string, d int)
	rec = func(prefix string, d int) {
		all = append(all, prefix)
		if d == 5 {
			return
		}
		for _, s := range syms {
			rec(prefix+s, d+1)
		}
	}
	rec("", 0)
	var out []json.RawMessage
	for _, l := range all {
		out = append(out, tagsInput("", l))
	}
	var short []string
	for _, l := range all {
		if len(l) <= 2 {
			short = append(short, l)
		}
	}
	for _, a := range short {
		for _, b := range short {
			out = append(out, tagsInput("", a, b))
		}
	}
	return out
}

// every combination of {no doc, // doc, /* doc */} x {no trailing, // trailing, /* trailing */} x {-, detached, blank line}
// on three consecutive declarations, as struct fields / grouped constants / ungrouped variables
func exhaustiveLayouts() []json.RawMessage {
	type opt struct{ doc, trail, front int }
	var opts []opt
	for d := 0; d < 3; d++ {
		for t := 0; t < 3; t++ {
			for f := 0; f < 3; f++ {
				opts = append(opts, opt{d, t, f})
			}
		}
	}
	mk := func(k int, name string) *Cmt {
		switch k {
		case 1:
			return lc(" "+name, " +tag="+name)
		case 2:
			return bc(" " + name + " ")
		}
		return nil
	}
	var out []json.RawMessage
	// pairs exhaustively (27*27), the third declaration fixed without comments; three container kinds per file
	for _, a := range opts {
		var files []File
		var decls []Decl
		n := 0
		for _, b := range opts {
			n++
			fa, fb, fc := fmt.Sprintf("A%d", n), fmt.Sprintf("B%d", n), fmt.Sprintf("C%d", n)
			front := func(o opt, nm string) (*Cmt, int) {
				switch o.front {
				case 1:
					return lc(" detached " + nm), 0
				case 2:
					return nil, 1
				}
				return nil, 0
			}
			detA, blA := front(a, fa)
			detB, blB := front(b, fb)
			// struct fields
			decls = append(decls, Decl{Kind: "type", Blank: 1, Specs: []Spec{{Names: []string{"S" + fa}, TK: "struct", Fields: []Field{
				{Names: []string{fa}, Type: "int", Doc: mk(a.doc, "doc "+fa), Trail: mk1(a.trail, "trailing "+fa), Det: detA, Blank: blA},
				{Names: []string{fb}, Type: "int", Doc: mk(b.doc, "doc "+fb), Trail: mk1(b.trail, "trailing "+fb), Det: detB, Blank: blB},
				{Names: []string{fc}, Type: "int"},
			}}}})
			// grouped constants
			decls = append(decls, Decl{Kind: "const", Blank: 1, Grouped: true, Specs: []Spec{
				{Names: []string{"K" + fa}, Value: "1", Doc: mk(a.doc, "doc K"+fa), Trail: mk1(a.trail, "trailing K"+fa), Det: detA, Blank: blA},
				{Names: []string{"K" + fb}, Value: "2", Doc: mk(b.doc, "doc K"+fb), Trail: mk1(b.trail, "trailing K"+fb), Det: detB, Blank: blB},
				{Names: []string{"K" + fc}, Value: "3"},
			}})
			// ungrouped variables
			decls = append(decls,
				Decl{Kind: "var", Blank: 1 + blA, Det: detA, Doc: mk(a.doc, "doc V"+fa), Specs: []Spec{{Names: []string{"V" + fa}, Type: "int", Trail: mk1(a.trail, "trailing V"+fa)}}},
				Decl{Kind: "var", Blank: blB, Det: detB, Doc: mk(b.doc, "doc V"+fb), Specs: []Spec{{Names: []string{"V" + fb}, Type: "int", Trail: mk1(b.trail, "trailing V"+fb)}}},
				Decl{Kind: "var", Specs: []Spec{{Names: []string{"V" + fc}, Type: "int"}}})
		}
		files = append(files, File{Decls: decls})
		out = append(out, layoutInput(files...))
		// the same file with everything behind a //line directive that renames it
		behind := append([]Decl{}, decls...)
		behind[0].Dir = &LineDir{Name: "exhaustive.y", Skip: 500}
		out = append(out, layoutInput(File{Decls: behind}))
	}
	return out
}

func mk1(k int, name string) *Cmt {
	switch k {
	case 1:
		return lc(" " + name)
	case 2:
		return bc(" " + name + " ")
	}
	return nil
}

// ---------------------------------------------------------------------------------------------
// shrinking
// ---------------------------------------------------------------------------------------------

func (prop) Shrink(in json.RawMessage) []json.RawMessage {
	var inp input
	if json.Unmarshal(in, &inp) != nil {
		return nil
	}
	var out []json.RawMessage
	if inp.Kind == "tags" {
		lines := make([]string, len(inp.Lines))
		for i, l := range inp.Lines {
			lines[i] = string(l)
		}
		for i := range lines { // drop a line
			out = append(out, tagsInput(string(inp.Markers), append(append([]string{}, lines[:i]...), lines[i+1:]...)...))
		}
		for i, l := range lines { // drop a byte
			for j := 0; j < len(l) && j < 40; j++ {
				c := append([]string{}, lines...)
				c[i] = l[:j] + l[j+1:]
				out = append(out, tagsInput(string(inp.Markers), c...))
			}
		}
		if len(inp.Markers) > 0 {
			out = append(out, tagsInput(string(inp.Markers[1:]), lines...))
		}
		return out
	}
	// layouts: re-marshal a deep copy with one thing removed
	clone := func() []File {
		var c input
		_ = json.Unmarshal(in, &c)
		return c.Files
	}
	emit := func(fs []File) { out = append(out, concLayoutInput(inp.Conc, fs...)) } // a concurrency case stays one
	if inp.Conc != nil {
		// a concurrency case fails by a race: the fewer declarations, the shorter the window and the less reliable
		// the replay.  Only whole files and declarations are dropped, and not below six declarations.
		nd := 0
		for _, f := range inp.Files {
			nd += len(f.Decls)
		}
		if nd <= 6 {
			return nil
		}
		for i := range inp.Files {
			if len(inp.Files) > 1 && nd-len(inp.Files[i].Decls) >= 6 {
				fs := clone()
				emit(append(fs[:i], fs[i+1:]...))
			}
		}
		for fi := range inp.Files {
			if n := len(inp.Files[fi].Decls); n > 3 && nd-n/2 >= 6 {
				fs := clone()
				fs[fi].Decls = fs[fi].Decls[:n-n/2]
				emit(fs)
				fs = clone()
				fs[fi].Decls = fs[fi].Decls[n/2:]
				emit(fs)
			}
		}
		for fi := range inp.Files {
			for di := range inp.Files[fi].Decls {
				if len(inp.Files[fi].Decls) > 1 {
					fs := clone()
					fs[fi].Decls = append(fs[fi].Decls[:di], fs[fi].Decls[di+1:]...)
					emit(fs)
				}
			}
		}
		return out
	}
	if len(inp.Files) > 1 {
		for i := range inp.Files {
			fs := clone()
			emit(append(fs[:i], fs[i+1:]...))
		}
	}
	for fi := range inp.Files { // big cuts first: one half of the declarations of a file
		if n := len(inp.Files[fi].Decls); n > 3 {
			fs := clone()
			fs[fi].Decls = fs[fi].Decls[:n/2]
			emit(fs)
			fs = clone()
			fs[fi].Decls = fs[fi].Decls[n/2:]
			emit(fs)
		}
	}
	for fi := range inp.Files {
		for di := range inp.Files[fi].Decls {
			if len(inp.Files[fi].Decls) > 1 {
				fs := clone()
				fs[fi].Decls = append(fs[fi].Decls[:di], fs[fi].Decls[di+1:]...)
				emit(fs)
			}
		}
	}
	// walk all shrinkable spots by index: the k-th spot of a clone is changed
	for k := 0; ; k++ {
		fs := clone()
		n := 0
		changed := false
		hit := func() bool { n++; return n-1 == k }
		var shrinkFields func(fl *[]Field)
		cm := func(c **Cmt) {
			if *c != nil && !changed && hit() {
				*c, changed = nil, true
			}
			if *c != nil && len((*c).L) > 1 && !changed && hit() {
				(*c).L, changed = (*c).L[:len((*c).L)-1], true
			}
		}
		shrinkFields = func(fl *[]Field) {
			for i := 0; i < len(*fl); i++ {
				if len(*fl) > 1 && !changed && hit() {
					*fl = append((*fl)[:i], (*fl)[i+1:]...)
					if i < len(*fl) {
						(*fl)[i].Semi = false
					}
					changed = true
					return
				}
				f := &(*fl)[i]
				if f.Dir != nil && !changed && hit() {
					f.Dir, changed = nil, true
				}
				cm(&f.Doc)
				cm(&f.Trail)
				cm(&f.Det)
				cm(&f.Inline)
				if f.Blank > 0 && !changed && hit() {
					f.Blank, changed = 0, true
				}
				if len(f.Names) > 1 && !changed && hit() {
					f.Names, changed = f.Names[:1], true
				}
				if len(f.Sub) > 0 {
					shrinkFields(&f.Sub)
				}
			}
		}
		var shrinkDecls func(ds []Decl)
		shrinkDecls = func(ds []Decl) {
			for i := range ds {
				d := &ds[i]
				if d.Dir != nil && !changed && hit() {
					d.Dir, changed = nil, true
				}
				cm(&d.Doc)
				cm(&d.Det)
				cm(&d.Open)
				cm(&d.Close)
				if d.Blank > 1 && !changed && hit() {
					d.Blank, changed = 1, true
				}
				for si := 0; si < len(d.Specs); si++ {
					if len(d.Specs) > 1 && !changed && hit() {
						d.Specs = append(d.Specs[:si], d.Specs[si+1:]...)
						if si < len(d.Specs) {
							d.Specs[si].Semi = false
						}
						changed = true
						return
					}
					s := &d.Specs[si]
					if s.Dir != nil && !changed && hit() {
						s.Dir, changed = nil, true
					}
					cm(&s.Doc)
					cm(&s.Trail)
					cm(&s.Det)
					cm(&s.Brace)
					cm(&s.Inline)
					if s.Blank > 0 && !changed && hit() {
						s.Blank, changed = 0, true
					}
					if len(s.Fields) > 0 {
						shrinkFields(&s.Fields)
					}
				}
				if len(d.Params) > 0 && !changed && hit() {
					d.Params, changed = nil, true
				}
				if len(d.Body) > 0 {
					for bi := range d.Body {
						if !changed && hit() {
							d.Body = append(d.Body[:bi], d.Body[bi+1:]...)
							changed = true
							return
						}
					}
					shrinkDecls(d.Body)
				}
			}
		}
		for fi := range fs {
			cm(&fs[fi].Header)
			shrinkDecls(fs[fi].Decls)
		}
		if !changed {
			break
		}
		emit(fs)
		if k > 400 {
			break
		}
	}
	return out
}
