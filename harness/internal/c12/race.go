package c12

// Once per invocation (core.Extra): the concurrency pass of conc.go under the race detector.  A tiny program is
// written into the scratch directory, built with `go build -race` against the repository under check and run on
// copies of one generated layout: G goroutines put the first Doc/Comment questions on every freshly loaded copy.
// The race detector must stay silent and every answer must be the answer a single caller gets.  The detector sees
// an unsynchronised lazily built index even when the window is too short for a wrong answer to show.  When the
// race-detector build is not available (no cgo / no race runtime) the program runs without it and a NOTE says so.

import (
	"bytes"
	"context"
	"encoding/json"
	"fmt"
	"os"
	"os/exec"
	"path/filepath"
	"strings"
	"time"

	"verifharness/internal/core"
)

const raceMain = `package main

import (
	"encoding/json"
	"fmt"
	"go/ast"
	"go/token"
	"os"
	"path/filepath"
	"runtime"
	"sync"
	"sync/atomic"

	gtypes "github.com/octohelm/gengo/pkg/types"
)

type out struct {
	Copies     int      ` + "`json:\"copies\"`" + `
	Goroutines int      ` + "`json:\"goroutines\"`" + `
	Queries    int      ` + "`json:\"queries\"`" + `
	Calls      int      ` + "`json:\"calls\"`" + `
	Wrong      int      ` + "`json:\"wrong\"`" + `
	Bad        []string ` + "`json:\"bad\"`" + `
	Err        string   ` + "`json:\"err\"`" + `
}

type q struct {
	name string
	pos  token.Pos
}

func queries(pkg gtypes.Package) (qs []q) {
	for _, f := range pkg.Files() {
		ast.Inspect(f, func(n ast.Node) bool {
			switch x := n.(type) {
			case *ast.FuncDecl:
				qs = append(qs, q{x.Name.Name, x.Name.Pos()})
			case *ast.ValueSpec:
				for _, id := range x.Names {
					qs = append(qs, q{id.Name, id.Pos()})
				}
			case *ast.TypeSpec:
				qs = append(qs, q{x.Name.Name, x.Name.Pos()})
			case *ast.Field:
				for _, id := range x.Names {
					qs = append(qs, q{id.Name, id.Pos()})
				}
			}
			return true
		})
	}
	return
}

func ask(pkg gtypes.Package, pos token.Pos) (s string) {
	defer func() {
		if e := recover(); e != nil {
			s = fmt.Sprint("panic: ", e)
		}
	}()
	t, d := pkg.Doc(pos)
	c := pkg.Comment(pos)
	if len(t) == 0 {
		t = nil
	}
	b, _ := json.Marshal([]any{t, append([]string{}, d...), append([]string{}, c...)})
	return string(b)
}

func main() {
	var o out
	dir := os.Args[1]
	fmt.Sscan(os.Args[2], &o.Copies)
	fmt.Sscan(os.Args[3], &o.Goroutines)
	G := o.Goroutines
	if runtime.GOMAXPROCS(0) < G {
		runtime.GOMAXPROCS(G)
	}
	finish := func() {
		b, _ := json.Marshal(o)
		fmt.Println("RESULT " + string(b))
	}
	var patterns []string
	for k := 0; k <= o.Copies; k++ {
		patterns = append(patterns, fmt.Sprintf("%s/q%03d", os.Args[4], k))
	}
	u, err := gtypes.Load(patterns, gtypes.WithDir(dir))
	if err != nil {
		o.Err = err.Error()
		finish()
		return
	}
	ref := u.Package(patterns[0])
	refQ := queries(ref)
	o.Queries = len(refQ)
	want := make([]string, len(refQ))
	for i, x := range refQ {
		want[i] = ask(ref, x.pos)
	}
	n := len(refQ)
	for k := 1; k <= o.Copies && n > 0; k++ {
		pkg := u.Package(patterns[k])
		qs := queries(pkg)
		if len(qs) != n {
			o.Err = "copies differ"
			break
		}
		got := make([][]string, G)
		var arrived atomic.Int32
		var wg sync.WaitGroup
		for g := 0; g < G; g++ {
			got[g] = make([]string, n)
			wg.Add(1)
			go func(g int) {
				defer wg.Done()
				step := []int{1, n - 1}[g%2]
				if step == 0 {
					step = 1
				}
				i := 0
				if k%2 == 0 {
					i = (g * 7) % n
				}
				arrived.Add(1)
				for spins := 0; int(arrived.Load()) < G; spins++ {
					if spins%256 == 255 {
						runtime.Gosched()
					}
				}
				for c := 0; c < n; c++ {
					got[g][i] = ask(pkg, qs[i].pos)
					i = (i + step) % n
				}
			}(g)
		}
		wg.Wait()
		for g := 0; g < G; g++ {
			for i := range qs {
				o.Calls++
				if got[g][i] != want[i] {
					o.Wrong++
					if len(o.Bad) < 4 {
						pp := ref.Position(refQ[i].pos)
						o.Bad = append(o.Bad, fmt.Sprintf("%s at %s:%d: goroutine %d (copy %d) got %s; a single caller gets %s", qs[i].name, filepath.Base(pp.Filename), pp.Line, g, k, got[g][i], want[i]))
					}
				}
			}
		}
	}
	finish()
}
`

// generated: Generate ran in this process (a normal run; not a replay, not a shrink round)
var generated bool

func repoDir() string {
	if d := os.Getenv("VERIF_REPO"); d != "" {
		return d
	}
	return "/repo"
}

func (prop) Extra(r *core.RNG, tier string, scratch string) (violations []string, notes []string, stats map[string]any) {
	stats = map[string]any{}
	if !generated { // replays and shrink rounds run given inputs only
		return nil, nil, stats
	}
	dir := filepath.Join(scratch, "racecheck")
	if err := os.MkdirAll(dir, 0o755); err != nil {
		return nil, []string{"race run skipped: " + err.Error()}, stats
	}
	defer os.RemoveAll(dir)
	repo := repoDir()
	gomod := "module racecheck\n\ngo 1.24.2\n\nrequire github.com/octohelm/gengo v0.0.0\n\nreplace github.com/octohelm/gengo => " + repo + "\n"
	if data, err := os.ReadFile(filepath.Join(repo, "go.mod")); err == nil {
		for _, l := range strings.Split(string(data), "\n") {
			if strings.HasPrefix(l, "go ") {
				gomod = strings.Replace(gomod, "go 1.24.2", strings.TrimSpace(l), 1)
			}
		}
	}
	_ = os.WriteFile(filepath.Join(dir, "go.mod"), []byte(gomod), 0o644)
	if sum, err := os.ReadFile(filepath.Join(repo, "go.sum")); err == nil {
		_ = os.WriteFile(filepath.Join(dir, "go.sum"), sum, 0o644)
	}
	_ = os.WriteFile(filepath.Join(dir, "main.go"), []byte(raceMain), 0o644)

	// the packages asked: copies of one generated layout of 2-4 files
	copies, G := 12, 12
	if tier == "thorough" {
		copies = 60
	}
	var inp input
	_ = json.Unmarshal(genConcLayout(r.Fork(), false, copies), &inp)
	lay := filepath.Join(dir, "layout")
	_ = os.MkdirAll(lay, 0o755)
	_ = os.WriteFile(filepath.Join(lay, "go.mod"), []byte("module "+concModule+"\n\ngo 1.24.2\n"), 0o644)
	vf := newVfiles(len(inp.Files))
	for k := 0; k <= copies; k++ {
		pd := filepath.Join(lay, concPkg(k))
		_ = os.MkdirAll(pd, 0o755)
		for i := range inp.Files {
			_ = os.WriteFile(filepath.Join(pd, fileName(i)), []byte(printFile(i, &inp.Files[i], vf).sb.String()), 0o644)
		}
	}

	t0 := time.Now()
	ctx, cancel := context.WithTimeout(context.Background(), 300*time.Second)
	defer cancel()
	exe := filepath.Join(dir, "racecheck.bin")
	build := exec.CommandContext(ctx, "go", "build", "-race", "-o", exe, ".")
	build.Dir = dir
	build.Env = append(os.Environ(), "GOFLAGS=-mod=mod", "GOPROXY=off", "CGO_ENABLED=1")
	if outp, err := build.CombinedOutput(); err != nil {
		plain := exec.CommandContext(ctx, "go", "build", "-o", exe, ".")
		plain.Dir = dir
		plain.Env = append(os.Environ(), "GOFLAGS=-mod=mod", "GOPROXY=off")
		if out2, err2 := plain.CombinedOutput(); err2 != nil {
			return []string{"the concurrency test program does not build against the current tree: " + tailStr(string(out2), 600)}, nil, stats
		}
		notes = append(notes, "race-detector build unavailable ("+tailStr(string(outp), 200)+"); concurrent first questions asked without -race")
		stats["race_detector"] = false
	} else {
		stats["race_detector"] = true
	}
	stats["race_build_s"] = time.Since(t0).Seconds()
	run := exec.CommandContext(ctx, exe, lay, fmt.Sprint(copies), fmt.Sprint(G), concModule)
	run.Dir = dir
	run.Env = append(os.Environ(), "GOFLAGS=-mod=mod", "GOPROXY=off", "GORACE=halt_on_error=0 exitcode=66")
	var ob, eb bytes.Buffer
	run.Stdout, run.Stderr = &ob, &eb
	rerr := run.Run()
	stats["race_total_s"] = time.Since(t0).Seconds()
	if strings.Contains(eb.String(), "DATA RACE") {
		violations = append(violations, fmt.Sprintf("data race reported by the race detector while %d goroutines put the first Doc/Comment questions on a freshly loaded package: %s", G, firstRace(eb.String())))
	}
	var res struct {
		Copies, Goroutines, Queries, Calls, Wrong int
		Bad                                       []string
		Err                                       string
	}
	found := false
	for _, l := range strings.Split(ob.String(), "\n") {
		if strings.HasPrefix(l, "RESULT ") && json.Unmarshal([]byte(l[7:]), &res) == nil {
			found = true
		}
	}
	if !found {
		if len(violations) == 0 {
			head := eb.String()
			if i := strings.Index(head, "fatal error:"); i >= 0 {
				head = head[i:]
			}
			violations = append(violations, fmt.Sprintf("the process died while %d goroutines put the first Doc/Comment questions on a freshly loaded package (%v): %s", G, rerr, tailStr(firstLines(head, 3), 600)))
		}
		return
	}
	if res.Err != "" {
		notes = append(notes, "race run: "+res.Err)
		return
	}
	stats["concurrent_calls"] = res.Calls
	stats["concurrent_copies"] = res.Copies
	stats["goroutines"] = res.Goroutines
	for _, b := range res.Bad {
		violations = append(violations, "first questions from several goroutines: "+b)
	}
	return
}

func tailStr(s string, n int) string {
	if len(s) > n {
		return s[len(s)-n:]
	}
	return s
}

func firstLines(s string, n int) string {
	ls := strings.SplitN(s, "\n", n+1)
	if len(ls) > n {
		ls = ls[:n]
	}
	return strings.Join(ls, " | ")
}

func firstRace(s string) string {
	i := strings.Index(s, "WARNING: DATA RACE")
	if i < 0 {
		return tailStr(s, 900)
	}
	s = s[i:]
	if j := strings.Index(s[10:], "=================="); j > 0 {
		s = s[:10+j]
	}
	if len(s) > 900 {
		s = s[:900]
	}
	return s
}
