package c12

import (
	"fmt"
	"strings"
)

// ---- the layout vocabulary (JSON round-trippable; the harness prints Go source from it) ----

// Cmt is one comment: "//"+line for each line, or "/*"+join(lines,"\n")+"*/".
type Cmt struct {
	L []string `json:"l"`
	B bool     `json:"b,omitempty"`
}

// LineDir is a `//line name:N:1` directive printed (between blank lines, at column 1) in front of a declaration:
// from the next line on go/token reports positions as name:N, N+1, ... (goyacc / cgo / template output).
// Name "" = the file's own name (only the line numbers jump).  The column form keeps columns physical.
// The jump is always FORWARD: N = (reported line of the directive) + 2 + Skip.  go/parser itself groups and
// attaches comments by REPORTED line numbers, so a directive that jumps backwards merges with the next comment
// into one group / can turn a doc comment into a "line comment" of the previous token - parser behaviour that
// is outside the property; with forward jumps the reported lines stay increasing and reported (file, line)
// pairs never repeat (both indexes of the code are keyed by them).
type LineDir struct {
	Name string `json:"name,omitempty"`
	Skip int    `json:"skip,omitempty"`
}

// Field is a struct field, an interface method or a function parameter.
type Field struct {
	Dir    *LineDir `json:"dir,omitempty"`
	Names  []string `json:"n,omitempty"` // empty: embedded
	Type   string   `json:"t"`
	Sub    []Field  `json:"sub,omitempty"` // non-empty: anonymous struct type on several lines
	Tag    string   `json:"tag,omitempty"`
	Doc    *Cmt     `json:"doc,omitempty"`
	Trail  *Cmt     `json:"tr,omitempty"`
	Det    *Cmt     `json:"det,omitempty"` // detached comment (a blank line follows)
	Blank  int      `json:"bl,omitempty"`  // blank lines in front
	Inline *Cmt     `json:"in,omitempty"`  // odd: block comment in front of the names, on the same line
	Semi   bool     `json:"semi,omitempty"`
	Split  bool     `json:"split,omitempty"` // odd: names after the first on continuation lines
}

type Spec struct {
	Dir     *LineDir `json:"dir,omitempty"` // grouped specs only
	Names   []string `json:"n"`
	TK      string   `json:"tk,omitempty"` // type specs: basic | alias | struct | iface
	Type    string   `json:"t,omitempty"`  // basic/alias: the type; const/var: optional type
	Value   string   `json:"v,omitempty"`  // const/var: "= ..." part without "="
	Path    string   `json:"path,omitempty"`
	Fields  []Field  `json:"f,omitempty"`
	OneLine bool     `json:"one,omitempty"`
	Brace   *Cmt     `json:"brace,omitempty"`
	Doc     *Cmt     `json:"doc,omitempty"`
	Trail   *Cmt     `json:"tr,omitempty"`
	Det     *Cmt     `json:"det,omitempty"`
	Blank   int      `json:"bl,omitempty"`
	Inline  *Cmt     `json:"in,omitempty"`
	Semi    bool     `json:"semi,omitempty"`
	Split   bool     `json:"split,omitempty"`
}

type Decl struct {
	Dir     *LineDir `json:"dir,omitempty"`
	Kind    string   `json:"k"` // type | const | var | import | func
	Grouped bool     `json:"g,omitempty"`
	Open    *Cmt     `json:"open,omitempty"`  // after "(" / after the "{" of a function body
	Close   *Cmt     `json:"close,omitempty"` // after ")" / after the "}" of a function body
	Doc     *Cmt     `json:"doc,omitempty"`
	Det     *Cmt     `json:"det,omitempty"`
	Blank   int      `json:"bl,omitempty"`
	Specs   []Spec   `json:"s,omitempty"`
	Name    string   `json:"name,omitempty"` // func
	Params  []Field  `json:"p,omitempty"`
	Body    []Decl   `json:"body,omitempty"`
}

type File struct {
	Header *Cmt   `json:"hdr,omitempty"`
	Decls  []Decl `json:"d"`
}

// ---- printing, with a record of what was printed where ----

type pcmt struct {
	File, Line, Col, EndLine int
	Kind                     string // lead | trail | other
}

type pdecl struct {
	File, Line, Col int
	Doc, Trail      int    // index into cmts, -1 = none (Doc: the comment printed as this declaration's doc)
	Grouped         bool   // Doc is expected on the node itself (grouped spec, field) rather than on the GenDecl
	What            string // spec | field | param | import
}

type pname struct {
	Name            string
	File, Line, Col int
	Decl            int // index into decls
}

// vfiles numbers the file names positions are reported under: the physical files f0.go, f1.go first, then
// the names introduced by //line directives, in order of first appearance (shared by the files of one input)
type vfiles struct{ names []string }

func newVfiles(nPhysical int) *vfiles {
	v := &vfiles{}
	for i := 0; i < nPhysical; i++ {
		v.names = append(v.names, fileName(i))
	}
	return v
}

func (v *vfiles) index(name string) int {
	for i, n := range v.names {
		if n == name {
			return i
		}
	}
	v.names = append(v.names, name)
	return len(v.names) - 1
}

func (v *vfiles) lookup(name string) int {
	for i, n := range v.names {
		if n == name {
			return i
		}
	}
	return -1
}

type printer struct {
	sb    strings.Builder
	phys  int // index of the physical file
	vf    *vfiles
	file  int // the file positions are reported under (changes behind a //line directive), index into vf
	line  int // the line positions are reported under
	col   int
	ndirs int
	cmts  []pcmt
	decls []pdecl
	names []pname
}

func (p *printer) w(s string) {
	p.sb.WriteString(s)
	for i := 0; i < len(s); i++ {
		if s[i] == '\n' {
			p.line++
			p.col = 1
		} else {
			p.col++
		}
	}
}

func (p *printer) nl() { p.w("\n") }

// comment text as it stands in the source
func (c *Cmt) text(single bool) string {
	if c.B {
		return "/*" + strings.Join(c.L, "\n") + "*/"
	}
	if single || len(c.L) <= 1 {
		l := ""
		if len(c.L) > 0 {
			l = c.L[0]
		}
		return "//" + l
	}
	return ""
}

// a comment alone on its lines
func (p *printer) lead(c *Cmt, indent string) int {
	if c == nil {
		return -1
	}
	id := len(p.cmts)
	p.w(indent)
	rec := pcmt{File: p.file, Line: p.line, Col: p.col, Kind: "lead"}
	if c.B {
		p.w(c.text(false))
		rec.EndLine = p.line
		p.nl()
	} else {
		ls := c.L
		if len(ls) == 0 {
			ls = []string{""}
		}
		for i, l := range ls {
			if i > 0 {
				p.w(indent)
			}
			p.w("//" + l)
			rec.EndLine = p.line
			p.nl()
		}
	}
	p.cmts = append(p.cmts, rec)
	return id
}

// a comment behind code on the current line (the caller ends the line)
func (p *printer) behind(c *Cmt, kind string) int {
	if c == nil {
		return -1
	}
	id := len(p.cmts)
	p.w(" ")
	rec := pcmt{File: p.file, Line: p.line, Col: p.col, Kind: kind}
	p.w(c.text(true))
	rec.EndLine = p.line
	p.cmts = append(p.cmts, rec)
	return id
}

// dir prints a //line directive; the caller is at the start of a line.  The directive comment is a
// stand-alone comment group of its own (blank lines around it) whose Text() is empty and which still lies in
// the old numbering; the line after it is line d.Line of d.Name.
func (p *printer) dir(d *LineDir) {
	if d == nil {
		return
	}
	p.nl()
	name := d.Name
	if name == "" {
		name = fileName(p.phys)
	}
	rec := pcmt{File: p.file, Line: p.line, Col: p.col, Kind: "lead"}
	n := p.line + 2 + max(d.Skip, 0)
	p.w(fmt.Sprintf("//line %s:%d:1", name, n))
	rec.EndLine = p.line
	p.cmts = append(p.cmts, rec)
	p.nl()
	p.file, p.line, p.col = p.vf.index(name), n, 1
	p.ndirs++
	p.nl()
}

func (p *printer) front(det *Cmt, blank int, indent string) {
	for i := 0; i < blank; i++ {
		p.nl()
	}
	if det != nil {
		p.lead(det, indent)
		p.nl()
	}
}

func (p *printer) inline(c *Cmt) {
	if c == nil {
		return
	}
	rec := pcmt{File: p.file, Line: p.line, Col: p.col, Kind: "other"}
	p.w("/*" + strings.Join(c.L, " ") + "*/")
	rec.EndLine = p.line
	p.cmts = append(p.cmts, rec)
	p.w(" ")
}

func (p *printer) nameList(names []string, split bool, indent string, decl int) {
	for i, n := range names {
		if i > 0 {
			if split {
				p.w(",\n" + indent + "\t")
			} else {
				p.w(", ")
			}
		}
		p.names = append(p.names, pname{Name: n, File: p.file, Line: p.line, Col: p.col, Decl: decl})
		p.w(n)
	}
}

// fields of a struct / methods of an interface on their own lines
func (p *printer) fields(fs []Field, indent string) {
	for i := range fs {
		f := &fs[i]
		semi := f.Semi && i > 0
		docID := -1
		if !semi {
			p.dir(f.Dir)
			p.front(f.Det, f.Blank, indent)
			docID = p.lead(f.Doc, indent)
			p.w(indent)
		}
		p.inline(f.Inline)
		di := len(p.decls)
		p.decls = append(p.decls, pdecl{File: p.file, Line: p.line, Col: p.col, Doc: docID, Trail: -1, Grouped: true, What: "field"})
		if len(f.Names) == 0 {
			p.names = append(p.names, pname{Name: f.Type, File: p.file, Line: p.line, Col: p.col, Decl: di})
			p.w(f.Type)
		} else if f.Type == "" && len(f.Sub) == 0 { // interface method: name + signature in Tag
			p.nameList(f.Names[:1], false, indent, di)
			p.w(f.Tag)
		} else {
			p.nameList(f.Names, f.Split, indent, di)
			p.w(" ")
			if len(f.Sub) > 0 {
				p.w("struct {")
				p.nl()
				p.fields(f.Sub, indent+"\t")
				p.w(indent + "}")
			} else {
				p.w(f.Type)
			}
			if f.Tag != "" {
				p.w(" `" + f.Tag + "`")
			}
		}
		next := i+1 < len(fs) && fs[i+1].Semi
		if next {
			p.w("; ")
			continue
		}
		p.decls[di].Trail = p.behind(f.Trail, "trail")
		p.nl()
	}
}

func (p *printer) params(fs []Field) {
	for i := range fs {
		f := &fs[i]
		if i > 0 {
			p.w(", ")
		}
		di := len(p.decls)
		p.decls = append(p.decls, pdecl{File: p.file, Line: p.line, Col: p.col, Doc: -1, Trail: -1, Grouped: true, What: "param"})
		p.nameList(f.Names, false, "", di)
		p.w(" " + f.Type)
	}
}

func (p *printer) spec(kind string, s *Spec, indent string, grouped bool, docID int) (di int) {
	p.inline(s.Inline)
	di = len(p.decls)
	what := "spec"
	if kind == "import" {
		what = "import"
	}
	p.decls = append(p.decls, pdecl{File: p.file, Line: p.line, Col: p.col, Doc: docID, Trail: -1, Grouped: grouped, What: what})
	switch kind {
	case "import":
		if len(s.Names) > 0 {
			p.w(s.Names[0] + " ")
			p.decls[di].Col = p.col - len(s.Names[0]) - 1
		}
		p.w(`"` + s.Path + `"`)
	case "type":
		p.nameList(s.Names[:1], false, indent, di)
		switch s.TK {
		case "alias":
			p.w(" = " + s.Type)
		case "struct", "iface":
			kw := "struct"
			if s.TK == "iface" {
				kw = "interface"
			}
			if s.OneLine {
				p.w(" " + kw + "{ ")
				for i := range s.Fields {
					f := &s.Fields[i]
					if i > 0 {
						p.w("; ")
					}
					fi := len(p.decls)
					p.decls = append(p.decls, pdecl{File: p.file, Line: p.line, Col: p.col, Doc: -1, Trail: -1, Grouped: true, What: "field"})
					if len(f.Names) == 0 {
						p.names = append(p.names, pname{Name: f.Type, File: p.file, Line: p.line, Col: p.col, Decl: fi})
						p.w(f.Type)
					} else if f.Type == "" {
						p.nameList(f.Names[:1], false, indent, fi)
						p.w(f.Tag)
					} else {
						p.nameList(f.Names, false, indent, fi)
						p.w(" " + f.Type)
					}
				}
				p.w(" }")
			} else {
				p.w(" " + kw + " {")
				p.behind(s.Brace, "other")
				p.nl()
				p.fields(s.Fields, indent+"\t")
				p.w(indent + "}")
			}
		default:
			p.w(" " + s.Type)
		}
	default: // const, var
		p.nameList(s.Names, s.Split, indent, di)
		if s.Type != "" {
			p.w(" " + s.Type)
		}
		if s.Value != "" {
			p.w(" = " + s.Value)
		}
	}
	return di
}

func (p *printer) decl(d *Decl, indent string) {
	p.dir(d.Dir)
	p.front(d.Det, d.Blank, indent)
	docID := p.lead(d.Doc, indent)
	if d.Kind == "func" {
		p.w(indent + "func ")
		di := len(p.decls)
		p.decls = append(p.decls, pdecl{File: p.file, Line: p.line, Col: p.col, Doc: docID, Trail: -1, What: "func"})
		p.names = append(p.names, pname{Name: d.Name, File: p.file, Line: p.line, Col: p.col, Decl: di})
		p.w(d.Name + "(")
		p.params(d.Params)
		p.w(") {")
		p.behind(d.Open, "other")
		p.nl()
		var locals []string
		for i := range d.Body {
			b := &d.Body[i]
			p.decl(b, indent+"\t")
			if b.Kind == "var" {
				for _, s := range b.Specs {
					locals = append(locals, s.Names...)
				}
			}
		}
		for _, n := range locals {
			p.w(indent + "\t_ = " + n + "\n")
		}
		p.w(indent + "}")
		p.behind(d.Close, "other")
		p.nl()
		return
	}
	if !d.Grouped {
		if len(d.Specs) == 0 {
			return
		}
		p.w(indent + d.Kind + " ")
		for i := range d.Specs {
			s := &d.Specs[i]
			if i > 0 { // odd: further declarations on the same line
				p.w("; " + d.Kind + " ")
			}
			id := -1
			if i == 0 {
				id = docID
			}
			di := p.spec(d.Kind, s, indent, false, id)
			if i+1 == len(d.Specs) {
				p.decls[di].Trail = p.behind(s.Trail, "trail")
			}
		}
		p.nl()
		return
	}
	p.w(indent + d.Kind + " (")
	p.behind(d.Open, "other")
	p.nl()
	in := indent + "\t"
	for i := range d.Specs {
		s := &d.Specs[i]
		semi := s.Semi && i > 0
		id := -1
		if !semi {
			p.dir(s.Dir)
			p.front(s.Det, s.Blank, in)
			id = p.lead(s.Doc, in)
			p.w(in)
		}
		di := p.spec(d.Kind, s, in, true, id)
		if i+1 < len(d.Specs) && d.Specs[i+1].Semi {
			p.w("; ")
			continue
		}
		p.decls[di].Trail = p.behind(s.Trail, "trail")
		p.nl()
	}
	p.w(indent + ")")
	p.behind(d.Close, "other")
	p.nl()
}

func printFile(idx int, f *File, vf *vfiles) *printer {
	p := &printer{phys: idx, vf: vf, file: idx, line: 1, col: 1}
	p.lead(f.Header, "")
	p.w("package p\n")
	for i := range f.Decls {
		p.decl(&f.Decls[i], "")
	}
	return p
}

func fileName(i int) string { return fmt.Sprintf("f%d.go", i) }
