module verifharness

go 1.24.2

require github.com/octohelm/gengo v0.0.0

require (
	github.com/go-courier/logr v0.3.2 // indirect
	github.com/google/go-cmp v0.7.0 // indirect
	github.com/octohelm/x v0.0.0-20250409031213-9c254440c2b8 // indirect
	golang.org/x/mod v0.24.0 // indirect
	golang.org/x/sync v0.13.0 // indirect
	golang.org/x/text v0.24.0 // indirect
	golang.org/x/tools v0.32.0 // indirect
	mvdan.cc/gofumpt v0.8.0 // indirect
)

replace github.com/octohelm/gengo => /repo
