module verifharness

go 1.24.2

require github.com/octohelm/gengo v0.0.0

require (
	golang.org/x/mod v0.24.0
	golang.org/x/text v0.24.0 // indirect
)

replace github.com/octohelm/gengo => /repo
