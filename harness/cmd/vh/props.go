package main

// one blank import per property package
import (
	_ "verifharness/internal/c19"
)
