package main

import _ "verifharness/internal/c06"
