package main

import _ "verifharness/internal/c04"
