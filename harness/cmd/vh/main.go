// vh — the correspondence harness.  vh <Cnn> --seed N --tier quick|thorough --out DIR [--replay FILE] [--corpus DIR]
package main

import (
	"encoding/json"
	"flag"
	"fmt"
	"os"
	"path/filepath"
	"sort"

	"verifharness/internal/core"
)

func main() {
	if len(os.Args) < 2 {
		fmt.Fprintln(os.Stderr, "usage: vh <property|list|child> ...")
		os.Exit(2)
	}
	id := os.Args[1]
	if id == "list" {
		for _, i := range core.IDs() {
			fmt.Println(i)
		}
		return
	}
	if h, ok := core.Children[id]; ok { // supervised child entry points
		os.Exit(h(os.Args[2:]))
	}
	fs := flag.NewFlagSet("vh", flag.ExitOnError)
	seed := fs.Uint64("seed", 1, "seed")
	tier := fs.String("tier", "quick", "quick|thorough")
	out := fs.String("out", "", "output directory")
	replay := fs.String("replay", "", "replay file: run exactly its input")
	corpus := fs.String("corpus", "", "corpus directory (inputs run first)")
	inputsFile := fs.String("inputs", "", "JSON array of inputs to run instead of generating")
	shrinkOf := fs.String("shrink", "", "print shrink candidates (JSON array) of the input in this file")
	shard := fs.Int("shard", 400, "cases per Coq file")
	_ = fs.Parse(os.Args[2:])
	p := core.Lookup(id)
	if p == nil {
		fmt.Fprintln(os.Stderr, "unknown property", id)
		os.Exit(2)
	}
	if *shrinkOf != "" {
		data, err := os.ReadFile(*shrinkOf)
		must(err)
		var cands []json.RawMessage
		if s, ok := p.(core.Shrinker); ok {
			cands = s.Shrink(data)
		}
		b, _ := json.Marshal(cands)
		fmt.Println(string(b))
		return
	}
	must(os.MkdirAll(*out, 0o755))
	var inputs []json.RawMessage
	corpusN := 0
	if *replay != "" {
		data, err := os.ReadFile(*replay)
		must(err)
		var rp struct {
			Input json.RawMessage `json:"input"`
		}
		must(json.Unmarshal(data, &rp))
		inputs = []json.RawMessage{rp.Input}
	} else if *inputsFile != "" {
		data, err := os.ReadFile(*inputsFile)
		must(err)
		must(json.Unmarshal(data, &inputs))
	} else {
		if *corpus != "" {
			files, _ := filepath.Glob(filepath.Join(*corpus, "*.json"))
			sort.Strings(files)
			for _, f := range files {
				data, err := os.ReadFile(f)
				if err != nil {
					continue
				}
				var rp struct {
					Input json.RawMessage `json:"input"`
				}
				if json.Unmarshal(data, &rp) == nil && rp.Input != nil {
					inputs = append(inputs, rp.Input)
				}
			}
			corpusN = len(inputs)
		}
		rng := core.NewRNG(*seed)
		inputs = append(inputs, p.Generate(rng.Fork(), *tier)...)
	}
	of, err := core.RunAll(p, *seed, *tier, *out, inputs, corpusN, *shard)
	must(err)
	fmt.Printf("%s: %d cases, %d shards\n", id, len(of.Cases), len(of.Shards))
}

func must(err error) {
	if err != nil {
		fmt.Fprintln(os.Stderr, "vh:", err)
		os.Exit(2)
	}
}
