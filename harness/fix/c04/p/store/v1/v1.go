// Package v1 (p/store): one of two fixture packages whose import name candidates collide (storev1).
package v1

type Ref struct {
	ID string
}
