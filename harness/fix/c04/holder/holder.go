// Package holder: the value type of the maps the C04 generators render.  Every field that is empty is left out of
// the rendered literal, so different entries of one map mention different packages.
package holder

import (
	pv1 "verifharness/fix/c04/p/store/v1"
	qv1 "verifharness/fix/c04/q/store/v1"
	xutil "verifharness/fix/c04/x/util"
	yutil "verifharness/fix/c04/y/util"
	zutil "verifharness/fix/c04/z/util"
)

type Rule struct {
	Note string
	X    *xutil.Opt
	Y    *yutil.Opt
	Z    *zutil.Opt
	LX   []xutil.Level
	LY   []yutil.Level
	TZ   zutil.Tags
	P    *pv1.Ref
	Q    *qv1.Ref
}
