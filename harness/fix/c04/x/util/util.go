// Package util (x): one of three fixture packages with the SAME last path element.  Generated files that mention
// two of them need two different import names; which package gets the short one must not depend on map order.
package util

type Opt struct {
	Name string
	N    int
}

type Level int

type Tags []string
