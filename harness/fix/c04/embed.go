// Package c04fix holds the sources of the fixture packages of the C04 harness: the harness child is compiled
// against them (reflect reports their import paths), and the same files are written next to every synthetic module
// (a module `verifharness` reached through a replace directive) so that the generated files load again in run 2.
package c04fix

import "embed"

//go:embed x y z p q holder
var FS embed.FS
