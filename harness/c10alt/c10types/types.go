// Package c10types (import path verifharness/c10alt/c10types): a SECOND package with the base name c10types.  Values
// that mix its types with those of verifharness/c10types make the import names depend on the ORDER in which
// Dumper.ValueLit registers packages (RenderStack: the composed model must follow that order).
package c10types

import "image"

type (
	// a zero R is a struct of structs: nothing of it is rendered, at any depth (fixes/C10-6: rendersNothing is recursive)
	Frame struct {
		R image.Rectangle
		N int
	}
	Tag struct {
		N int
		S string
	}
	Unit int
)
