package c10types

import _ "embed"

// the sources of this package, written into the scratch module of generated programs

//go:embed types.go
var TypesSrc string

//go:embed dump.go
var DumpSrc string
