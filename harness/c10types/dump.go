package c10types

import (
	"fmt"
	"math"
	"reflect"
	"sort"
	"strings"
)

// Dump is a canonical rendering of a value for comparison "reflect.DeepEqual with nil and empty
// slices/maps identified": floats by == (so -0 is 0), pointers by pointee, map entries sorted.
func Dump(v reflect.Value) string {
	switch v.Kind() {
	case reflect.Bool:
		return fmt.Sprintf("b:%v", v.Bool())
	case reflect.Int, reflect.Int8, reflect.Int16, reflect.Int32, reflect.Int64:
		return fmt.Sprintf("i:%d", v.Int())
	case reflect.Uint, reflect.Uint8, reflect.Uint16, reflect.Uint32, reflect.Uint64, reflect.Uintptr:
		return fmt.Sprintf("u:%d", v.Uint())
	case reflect.Float32, reflect.Float64:
		f := v.Float()
		if f == 0 {
			f = 0
		}
		return fmt.Sprintf("f:%x", math.Float64bits(f))
	case reflect.Complex64, reflect.Complex128:
		return fmt.Sprintf("c:%v", v.Complex())
	case reflect.String:
		return fmt.Sprintf("s:%q", v.String())
	case reflect.Ptr:
		if v.IsNil() {
			return "nil"
		}
		return "&" + Dump(v.Elem())
	case reflect.Interface:
		if v.IsNil() {
			return "nil"
		}
		return "any(" + Dump(v.Elem()) + ")"
	case reflect.Slice, reflect.Array:
		var parts []string
		for i := 0; i < v.Len(); i++ {
			parts = append(parts, Dump(v.Index(i)))
		}
		return "[" + strings.Join(parts, " ") + "]"
	case reflect.Map:
		var parts []string
		for _, k := range v.MapKeys() {
			parts = append(parts, Dump(k)+"="+Dump(v.MapIndex(k)))
		}
		sort.Strings(parts)
		return "{" + strings.Join(parts, " ") + "}"
	case reflect.Struct:
		var parts []string
		for i := 0; i < v.NumField(); i++ {
			f := v.Type().Field(i)
			if f.PkgPath != "" { // unexported
				continue
			}
			parts = append(parts, f.Name+":"+Dump(v.Field(i)))
		}
		return "(" + strings.Join(parts, " ") + ")"
	}
	return "?" + v.Kind().String()
}
