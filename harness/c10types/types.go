// Package c10types: named types compiled into the harness for property C10 (values rendered by
// snippet.Value).  The same source is copied into the scratch module of every generated program,
// so a literal rendered for one of these types compiles there under the same import path.
package c10types

import (
	"crypto/x509/pkix"
	"encoding/asn1"
	"encoding/pem"
	"image"
	"net"
	"net/url"
	"time"
)

// types with fields of STRUCT types of other packages that hold slices and maps (and further such structs): such a
// field can be non-zero and still render nothing (only empty, non-nil slices/maps, at any depth); the property
// identifies it with the zero field, it is omitted from the literal, and then none of its packages may be imported
type (
	Sealed struct {
		Alg pkix.AlgorithmIdentifier // pkix -> asn1: {Algorithm asn1.ObjectIdentifier; Parameters asn1.RawValue{.. Bytes, FullBytes []byte}}
		Sig asn1.BitString           // {Bytes []byte; BitLength int}
		Blk pem.Block                // {Type string; Headers map[string]string; Bytes []byte}
		Net net.IPNet                // {IP net.IP; Mask net.IPMask}
		N   int
	}
	Vault struct {
		S      Sealed
		Exts   []pkix.Extension // {Id asn1.ObjectIdentifier; Critical bool; Value []byte}
		ByName map[string]pem.Block
		Raw    *asn1.RawValue
		Name   string
	}
)

// types with fields of named types of OTHER packages: a zero-valued field of such a type is omitted from the
// literal, and then its package must not be imported (RenderStack / fixes/C10-6)
type (
	Box struct {
		P  image.Point
		D  time.Duration
		In Inner
		N  int
	}
	Wrap struct {
		B Box
		U url.Values
		Q *image.Point
	}
)

type (
	Color int
	Level int8
	Flag  bool
	Name  string
	Ratio float64
	Code  int32
	Size  uint64
	Addr  uintptr
	Inner struct {
		A int
		B string
	}
	Point struct{ X, Y float64 }
	Tags  []string
	Dict  map[string]int
	Pair  [2]int
	Node  struct {
		Name Name
		Next *Inner
		Kids []Inner
		Attr map[Name]Inner
		P    *string
		C    *Color
		In   Inner
	}
	// outside the property's domain (unexported field)
	Hidden struct {
		A int
		b int
	}
)

func NewHidden(a, b int) Hidden { return Hidden{A: a, b: b} }
