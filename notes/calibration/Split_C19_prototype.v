From Coq Require Import List NArith Bool Lia.
Import ListNotations.

Inductive class := COther | CLower | CUpper | CDigit.
Definition class_eqb (a b : class) : bool :=
  match a, b with COther, COther | CLower, CLower | CUpper, CUpper | CDigit, CDigit => true | _, _ => false end.

Inductive res (A : Type) := Ok (a : A) | Panic.
Arguments Ok {A}. Arguments Panic {A}.

Section S.
Variable rune : Type.
Variable cls : rune -> class.

Definition joins (c last : class) : bool :=
  class_eqb c last || (class_eqb c CDigit && (class_eqb last CUpper || class_eqb last CLower)).

Definition is_nil {A} (l : list A) : bool := match l with [] => true | _ => false end.

(* pass 1: groups kept newest-first; [fixed] selects the guarded (repaired) loop *)
Fixpoint pass1 (fixed : bool) (src : list rune) (groups : list (list rune)) (last : class) : res (list (list rune)) :=
  match src with
  | [] => Ok groups
  | r :: rest =>
    let c := cls r in
    if (if fixed then negb (is_nil groups) else true) && joins c last then
      match groups with
      | [] => Panic
      | g :: gs => pass1 fixed rest ((g ++ [r]) :: gs) c
      end
    else pass1 fixed rest ([r] :: groups) c
  end.

Definition hd_is (p : rune -> bool) (g : list rune) : bool := match g with a :: _ => p a | [] => false end.
Definition is_upper r := class_eqb (cls r) CUpper.
Definition is_lower r := class_eqb (cls r) CLower.

Fixpoint pass2 (carry : list rune) (gs : list (list rune)) : list (list rune) :=
  match gs with
  | [] => []
  | g :: tl =>
    let g' := carry ++ g in
    match tl with
    | [] => [g']
    | g2 :: _ =>
      if hd_is is_upper g' && hd_is is_lower g2
      then removelast g' :: pass2 (match g' with [] => [] | a :: _ => [last g' a] end) tl
      else g' :: pass2 [] tl
    end
  end.

Definition split (fixed : bool) (src : list rune) : res (list (list rune)) :=
  match pass1 fixed src [] COther with
  | Panic => Panic
  | Ok groups => Ok (filter (fun g => negb (is_nil g)) (pass2 [] (rev groups)))
  end.

(* ---------- proofs ---------- *)

Lemma pass1_fixed_ok : forall src groups last,
  exists gs, pass1 true src groups last = Ok gs.
Proof.
  induction src as [|r rest IH]; intros groups last; cbn [pass1].
  - eauto.
  - destruct groups as [|g gs]; cbn [is_nil negb andb].
    + apply IH.
    + destruct (joins (cls r) last); cbn; apply IH.
Qed.

Lemma pass1_concat : forall fixed src groups last gs,
  pass1 fixed src groups last = Ok gs ->
  concat (rev gs) = concat (rev groups) ++ src /\
  (Forall (fun g => g <> []) groups -> Forall (fun g => g <> []) gs).
Proof.
  intros fixed; induction src as [|r rest IH]; intros groups last gs H; cbn [pass1] in H.
  - inversion H; subst. rewrite app_nil_r. auto.
  - destruct ((if fixed then negb (is_nil groups) else true) && joins (cls r) last).
    + destruct groups as [|g gs0]; [discriminate|].
      apply IH in H. destruct H as [H1 H2]. split.
      * rewrite H1. cbn [rev]. rewrite !concat_app. cbn [concat]. rewrite !app_nil_r, <- !app_assoc. reflexivity.
      * intros F. apply H2. inversion F; subst. constructor; [destruct g; discriminate|assumption].
    + apply IH in H. destruct H as [H1 H2]. split.
      * rewrite H1. cbn [rev]. rewrite concat_app. cbn [concat]. rewrite app_nil_r, <- app_assoc. reflexivity.
      * intros F. apply H2. constructor; [discriminate|assumption].
Qed.

Lemma removelast_last : forall (l : list rune) a, l <> [] -> removelast l ++ [last l a] = l.
Proof. intros l a H. symmetry. apply app_removelast_last. exact H. Qed.

Lemma pass2_concat : forall gs carry, concat (pass2 carry gs) = carry ++ concat gs \/ (gs = [] /\ True).
Proof.
  induction gs as [|g tl IH]; intros carry; [right; auto|left].
  cbn [pass2]. destruct tl as [|g2 tl'].
  - cbn. rewrite !app_nil_r. reflexivity.
  - destruct (hd_is is_upper (carry ++ g) && hd_is is_lower g2) eqn:E.
    + destruct (carry ++ g) as [|a l] eqn:Eg; [cbn in E; discriminate|].
      cbn [concat]. destruct (IH [last (a :: l) a]) as [-> | [? _]]; [|discriminate].
      rewrite app_assoc. rewrite removelast_last by discriminate. rewrite <- Eg. cbn [concat]. rewrite <- app_assoc. reflexivity.
    + cbn [concat]. destruct (IH []) as [-> | [? _]]; [|discriminate]. cbn. rewrite <- app_assoc. reflexivity.
Qed.

Lemma concat_filter_nonempty : forall (l : list (list rune)), concat (filter (fun g => negb (is_nil g)) l) = concat l.
Proof. induction l as [|g l IH]; cbn; [reflexivity|]. destruct g; cbn; [exact IH| rewrite IH; reflexivity]. Qed.

Theorem split_total : forall src, exists ws, split true src = Ok ws.
Proof. intros src. unfold split. destruct (pass1_fixed_ok src [] COther) as [gs ->]. eauto. Qed.

Theorem split_lossless : forall fixed src ws, split fixed src = Ok ws -> concat ws = src /\ Forall (fun w => w <> []) ws.
Proof.
  intros fixed src ws H. unfold split in H. destruct (pass1 fixed src [] COther) as [gs|] eqn:E; [|discriminate].
  inversion H; subst; clear H. apply pass1_concat in E. destruct E as [E _]. cbn in E. split.
  - rewrite concat_filter_nonempty. destruct (pass2_concat (rev gs) []) as [-> | [Hn _]]; [cbn; exact E|].
    rewrite Hn in *. cbn in *. congruence.
  - apply Forall_forall. intros w Hin. apply filter_In in Hin. destruct Hin as [_ Hw]. destruct w; [discriminate|discriminate].
Qed.

End S.

Example original_panics : split nat (fun n => match n with 0 => COther | _ => CLower end) false [0; 1; 2] = Panic.
Proof. vm_compute. reflexivity. Qed.
Print Assumptions split_lossless.
Print Assumptions split_total.
